#!/usr/bin/env python3
"""Writes /verif/MANIFEST.json from the table below (kept in one place so that it stays valid)."""
import json
import os

VERIF = os.path.dirname(os.path.dirname(os.path.abspath(__file__)))

TRUST = ("Trusted base: the asherahverif shims (vsync/vatomic/Chan/vclock/vrand) faithfully model Go's sync, atomic and channel "
         "semantics under sequential consistency; the AST overlay generator rewrites only imports, go statements, channel operations, "
         "time.Now, crypto/rand and map ranges; doubles answer within the documented Metastore/KMS/memcall contracts. "
         "Coverage is bounded as stated in the evidence (threads, preemptions, depth, deviations, alphabets).")

# id -> (category, technique, text, design_ref, built)
CHECKS = {
    "C08": ("model_checking", "stateless schedule exploration of the real code under a controlled scheduler (preemption-bounded DFS + happens-before state caching)",
            "Every interleaving, up to the stated preemption bound, of 2-3 goroutines decrypting/encrypting/opening sessions against one factory "
            "with capacity-1/2 shared key caches of each eviction policy is executed on the real SDK; oracle: every operation succeeds with the right bytes, "
            "no access to a destroyed secret, everything released after close.", "6/C08"),
}

NOT_YET = {}


def main():
    props = [json.loads(l) for l in open(os.path.join(VERIF, "properties.jsonl"))]
    checks = []
    na = []
    for p in props:
        pid = p["id"]
        if pid in CHECKS:
            cat, tech, text, ref = CHECKS[pid]
            checks.append({
                "property_id": pid,
                "quick_cmd": "python3 check.py %s --tier quick" % pid,
                "thorough_cmd": "python3 check.py %s --tier thorough" % pid,
                "evidence_file": "/verif/evidence/%s.json" % pid,
                "replay_cmd_template": "python3 check.py %s --replay {path}" % pid,
                "engine": "vharness",
                "level_claimed": {"category": cat, "text": text, "design_ref": "DESIGN.md section " + ref},
                "level_note": TRUST,
                "technique": tech,
            })
        else:
            na.append({"property_id": pid, "reason": NOT_YET.get(pid, "check not built yet in this session (planned, see DESIGN.md section 6); not claimed until it exists")})
    m = {
        "version": 1,
        "setup_cmd": "bash setup.sh",
        "hooks": {
            "guard": "none: no instrumentation is committed to /repo; a go build -overlay is generated from the working tree at check time",
            "enable": "python3 check.py <id> regenerates /verif/.work/overlay-* with mc/cmd/gen and builds mc/cmd/vharness with -overlay",
            "baseline_off_cmd": "for m in $(cat /w/out/gomods.txt); do MF=$(cd /repo/$m && . /w/out/goenv.sh && gomodflag); (cd /repo/$m && go test $MF -json -vet=off -count=1 -timeout 25m ./...); done",
            "source_commits": [],
            "add_only": True,
        },
        "engines": [
            {"name": "vharness", "path": "/verif/mc", "serves_properties": sorted(CHECKS),
             "kind_free_text": "hand-written model checker for Go: controlled cooperative scheduler (vsched) + shims bound to the real code through a generated build overlay; "
                               "stateless DFS over schedules/environment choices with preemption and deviation bounds and happens-before caching; "
                               "explicit-state BFS over operation histories with a canonical dump of the real objects as state key"},
        ],
        "checks": checks,
        "not_applicable": na,
        "notes": "All checks rebuild from /repo's working tree on every run. Fix commits in /repo are listed in known_findings.json (status fixed).",
    }
    with open(os.path.join(VERIF, "MANIFEST.json"), "w") as f:
        json.dump(m, f, indent=1)
    print("MANIFEST.json: %d checks, %d not_applicable" % (len(checks), len(na)))


if __name__ == "__main__":
    main()
