#!/usr/bin/env python3
"""Writes /verif/MANIFEST.json from the table below (kept in one place so that it stays valid)."""
import json
import os

VERIF = os.path.dirname(os.path.dirname(os.path.abspath(__file__)))

TRUST = ("Trusted base: the asherahverif shims (vsync/vatomic/Chan/vclock/vrand) faithfully model Go's sync, atomic and channel "
         "semantics under sequential consistency; the AST overlay generator rewrites only imports, go statements, channel operations, "
         "time.Now, crypto/rand and map ranges; doubles answer within the documented Metastore/KMS/memcall contracts. "
         "Coverage is bounded as stated in the evidence (threads, preemptions, depth, deviations, alphabets).")

# id -> (category, technique, text, design_ref, built)
K_TECH = "explicit-state breadth-first search over operation histories executed on the real SDK under a virtual clock (state = canonical dump of the real object graph), oracle on every transition and state"
CHECKS = {
    "C01": ("model_checking", K_TECH,
            "BFS over histories of encrypt/decrypt (long-lived and per-request sessions of two processes), clock ticks across the precision / revoke-check / expiry thresholds, out-of-band revocation, restart and session close, for several cache configurations; on every transition decrypt results are compared with the original payload and in every state every catalogued record is decrypted by a fresh SDK factory and by an independent reference decryptor over the metastore snapshot. Fixed mini-runs add 1 MiB / 5 MiB payloads and factories configured with different AWS KMS regions (both plugins). Plus the fault space (once the faults stop, the record decrypts again), region-suffix and Store/Load sequences, and a narrow-alphabet deep history configuration. Sequences over factories that share one real DynamoDB metastore object (eventually consistent fake).", "6/C01"),
    "C03": ("model_checking", K_TECH + "; AEAD/KMS/allocator call monitors",
            "The same history space with monitors on every AEAD, KMS and secret-allocation call: one fresh data key per encrypt used once and wrapped once, no (key, nonce) repeated in a history (deterministic logged random source), payload only under data keys, data keys only under the partition's IK, IKs only under the SK, SK only to the KMS, and a byte-window leak scan of records, rows and log lines. The log lines of every operation - decrypts and failing operations of the fault space included - are scanned for plaintext key / payload bytes (raw, hex, base64, decimal). The AWS KMS plugins are run with a logger installed: nothing they log while wrapping / unwrapping contains the system key or a data-key plaintext. Concurrent encrypts and racing creators over the real metastore objects: a record whose named rows are stored is opened by that stored chain. Payloads live in a larger scratch buffer that the caller overwrites after Encrypt: the returned record must not share storage with it.", "6/C03"),
    "C04": ("model_checking", K_TECH + "; deviation-bounded fault enumeration on expiry timelines",
            "The same history space; on every encrypt transition the named IK's age, the parent SK of every IK row written, and the time since the parent SK expired are computed from row stamps and the virtual clock, independently of the SDK's predicates; plus timelines of a long-lived session around the key lifetime with every placement of up to 2-3 failing metastore reads / KMS unwraps (while writes are accepted no record is handed out under an expired key). A narrow-alphabet configuration (one long-lived session, a second partition ageing the system key, three ticks, revocations) is searched two levels deeper.", "6/C04"),
    "C05": ("model_checking", K_TECH + "; deviation-bounded fault enumeration on revocation timelines",
            "The same history space with a ghost 'revoked at' stamp per row; every encrypt more than one interval after an IK revocation (two after an SK revocation) must not use / create under the revoked key; plus timelines of a long-lived session around the interval marks with every placement of up to 2-3 failing metastore reads / KMS unwraps (a failed re-check must not be answered from the cached copy).", "6/C05"),
    "C06": ("exploration", "exhaustive enumeration of an adversarial id universe (all ordered pairs) on the real SDK",
            "All concatenations of up to 3 (thorough: 4) tokens from the naming scheme's own vocabulary as partition ids; every ordered pair (P,Q): session P must fail on Q's genuine record; with/without region suffix, two service/product pairs, per-session / shared / no key cache / sessions handed out by the session cache; every record names its own partition's key id. Long ids that share a 63..300-byte head are part of the universe.", "6/C06"),
    "C07": ("exploration", "bounded-exhaustive mutation enumeration (every single-bit flip, truncation, field recombination, structural case) on the real SDK",
            "Every single-bit flip and truncation of Data and wrapped key of 4 genuine records, all 4^5 field recombinations, structural cases (incl. the parent key id replaced by every prefix / suffix / one-character deletion of itself and by separator-free, separator-only and very long strings), loader failures, and every bit flip / truncation / structural corruption of every metastore row, through Decrypt and Load with cold, warm and stale caches, over a plain and a region-suffixing metastore; plus the key rows corrupted in their stored form (SQL key_record JSON text, DynamoDB v1/v2 item attributes) so that the real metastore decoders are on the path; result must be the original payload or an error, never a panic. The same payload-or-error rule through the sidecar request mapping for every malformed decrypt record shape.", "6/C07"),
    "C08": ("model_checking", "stateless schedule exploration of the real code under a controlled scheduler (preemption-bounded DFS + happens-before state caching)",
            "Every interleaving, up to the stated preemption bound, of 2-3 goroutines decrypting/encrypting/opening sessions against one factory "
            "with capacity-1/2 shared key caches of each eviction policy is executed on the real SDK; oracle: every operation succeeds with the right bytes, "
            "no access to a destroyed secret, everything released after close. Scenarios: eviction vs hit for every policy, encrypt/decrypt mixes, two SK generations, stale-entry refresh, session churn, session cache with one and with two holders of the evicted session, asynchronous eviction at capacity 100 (thorough), rotation of the cached latest key under users of the old generation, session churn in the policy corners (no-cache / SK-only together with a shared IK cache).", "6/C08"),
    "C09": ("model_checking", K_TECH + "; tracking secret factory accounting",
            "The same history space with a tracking SecretFactory: after every call data keys are released, with caching disabled nothing stays live, live secrets are exactly the open keys reachable from the caches (walker), at most one per key and cache and never above capacity, and after restart every secret of the closed factory was released exactly once and never touched again; the same accounting on every error path of the fault space (<= 2-4 injected metastore/KMS/AEAD/allocator faults) and at the end of every interleaving of the session-cache eviction schedule harnesses. The K plan includes a configuration whose IK and SK cache capacities differ.", "6/C09"),
    "C15": ("model_checking", "explicit-state breadth-first search over cache operation histories on the real cache against reference models",
            "BFS over Set/Get/Delete/tick/Len/Close histories on 4 keys for lru/lfu/slru/tinylfu, capacities 1..6 and 99/100/101, with/without expiry, synchronous and asynchronous eviction (event goroutine under the controlled scheduler); each step compared with a reference model: values, Len, exact multiset of eviction callbacks, victims per the policy's definition, no panic/deadlock; plus asynchronous eviction with two user goroutines and the event goroutine under the controlled scheduler (callbacks exactly once and delivered before Close returns). Plus a fixed family of long deterministic histories (4 access patterns x policies x capacities up to 128, 300-6000 operations, TinyLFU across its sample reset), every step judged by the same model.", "6/C15"),
    "C19": ("model_checking", "exhaustive enumeration of request sequences against a reference protocol automaton on the real handler",
            "Every sequence of up to 5 (thorough: 6) requests over a 9-request alphabet plus end-of-stream is sent through an in-memory stream into the real AppEncryption.Session (memory metastore, static KMS); one response per request, protocol state enforced, round-trips verified on a second stream, no panic; plus two concurrent streams on one AppEncryption (with and without session caching) under the controlled scheduler. Plus every structurally malformed decrypt record (each optional sub-message / field absent, truncated, empty, oversized) and typed-nil request bodies in every protocol state, followed by ordinary requests.", "6/C19"),
}

CHECKS.update({
    "C02": ("fault_enumeration", "deviation-bounded exhaustive enumeration of environment faults (explorer with environment choice points) on the real SDK",
            "One encrypt from each prepared start state (cold, warm, rotating, revoked IK/SK, SK-only) with every placement of up to 2 (thorough: 3) faults over the metastore (error, false duplicate, error-after-write) and KMS calls it makes; a returned record must name rows present in the store snapshot taken at that instant and be decryptable by the independent reference from snapshot + KMS alone (= crash after return); after the faults stop the next encrypt must succeed. Region-suffixed key ids and a cancelled caller context (during any call) are part of the space. Plus schedules: two sessions of one factory encrypt at the same time over one real metastore object (DynamoDB plugins, memory): durable chain at return, fresh-process decrypt. A slow metastore / KMS call during which the clock crosses a creation-stamp bucket is one more alternative at every call. The spies honour a cancelled context, so a context captured from an earlier call shows as a failed recovery.", "6/C02"),
    "C10": ("fault_enumeration", "deviation-bounded exhaustive enumeration of faults with retained-buffer inspection",
            "The fault space extended with AEAD and secret-allocation failures: the spies retain every plaintext slice they handed out (KMS unwrap, AEAD key unwraps, the buffer given to SecretFactory.New) and all must be zero when the operation returns; plus the AWS KMS plugin product checking GenerateDataKey / Decrypt plaintext. The caller may cancel its context during any metastore / KMS call (which then answers normally). Both real secret factories (shadow page table) wipe the buffer handed to New; encrypt + cold decrypt through the SDK with them leave no unwrapped key readable.", "6/C10"),
    "C11": ("model_checking", "stateless schedule exploration (preemption-bounded DFS) over a shadow page table + exhaustive operation sequences on real pages observed through /proc/self/smaps",
            "(b) every interleaving up to the bound of readers (one nested; callbacks that panic or return an error), closers and an IsClosed poller on one secret of each implementation with a scheduling point inside every callback: callbacks only run on read-only pages with the original bytes, Close returns only after the last reader, later accesses fail, wipe precedes unlock; (a) every operation sequence (incl. callbacks that panic or fail) up to depth 4/5 on real mmap/mlock/mprotect memory for sizes 1 B..3 pages with smaps permissions and VmFlags (lo, dd) checked inside callbacks and after each step, in child processes so that a SIGSEGV is an observation.", "6/C11"),
    "C12": ("fault_enumeration", "deviation-bounded exhaustive enumeration of failing memory primitives over a shadow page table",
            "Scripts of New/CreateRandom/WithBytes/nested/WithBytesFunc/Reader/Close/Close for both implementations with every placement of up to 2 (thorough: 3) failing primitives (Alloc, Lock, Protect, Unlock, Free, random source): error instead of a degraded secret, no page of a failed creation left mapped or locked, secret bytes zero at unlock, failed open leaves the page inaccessible and the secret usable, failed Close retryable, in-use counter balanced. Reads between a failed Close and its retry are refused or exact. Plus schedules: a reader inside its callback and a Close waiting for it, every interleaving x every placement of 1-2 failing primitives (nobody left blocked, Close retryable).", "6/C12"),
    "C13": ("model_checking", "explicit-state breadth-first search (closed state space) over metastore operations against a reference table, through semantic fakes",
            "BFS over Store/Load/LoadLatest on 2 ids x 2 (thorough: 3) stamps x 4 record variants until no new table is reachable, for the memory, SQL (3 dialects + default) and DynamoDB v1/v2 metastores (table name / region suffix variants); the SQL fake parses and executes the statements under the documented schema, the DynamoDB fake evaluates conditions, key conditions, projection, ordering and is eventually consistent unless ConsistentRead is set; every slot is read back after every transition; DynamoDB variants with transient read errors (a retry must not become a stale read); plus every interleaving of 2-3 concurrent Stores of one key (and a reader) on the in-memory metastore. Plus concurrent callers (two readers of different ids, one storer) on one DynamoDB metastore object of each plugin, the transport reading requests when they are delivered. A SQL result set that breaks while it is fetched may fail the read but never reports no-such-record; two concurrent storers of different keys. The table search is repeated with creation stamps before the epoch and ending at zero for one implementation of each kind. The DynamoDB fake returns the old item of a failed conditional write when asked (ALL_OLD).", "6/C13"),
    "C14": ("model_checking", "stateless schedule exploration with context switches placed at external calls (unbounded for 2 processes) + happens-before caching",
            "2-3 processes with their own factories race one encrypt each (thorough: two) over one spy metastore/KMS from cold, SK-only, expired, revoked-IK and revoked-SK states (plus a clock crossing of the precision bucket): every returned record names stored rows and is decryptable by every process and by the reference, unsaved keys of refused inserts are released, the store only grew; the same 2-process race over the SDK's own instrumented MemoryMetastore with preemptions inside its Store/Load bodies. The real-store race also runs over both DynamoDB plugins (eventually consistent fake) and a fresh process must decrypt every record.", "6/C14"),
    "C16": ("model_checking", "stateless schedule exploration of the real code under a controlled scheduler (preemption-bounded DFS + happens-before state caching)",
            "2-3 goroutines get/use/close cached sessions over more partitions than the session cache holds (capacity 1-2, all policies), including expiry while held and factory close racing the holders' closes; the cache's event goroutine and the Remove goroutines are threads of the exploration: held sessions keep working, gets share one session while cached, evicted sessions are torn down exactly once after their last holder, everything is released and no goroutine is left after factory close.", "6/C16"),
    "C17": ("fault_enumeration", "exhaustive product of regional failure patterns over fake regional KMS endpoints on both real plugins",
            "n = 1..3 (thorough: 4) regions, every preferred region, every subset failing GenerateDataKey and/or Encrypt at wrap time, every {ok, Decrypt fails, wrong data key} assignment at unwrap time, the four v1/v2 pairings and envelopes with an entry removed: success conditions, exactly one entry per succeeded region, identical bytes, preferred-first / at-most-once / stop-at-first-success call order, data-key plaintext wiped; the regional endpoints reject requests naming another region's key; plus every interleaving (preemption bound 2-3) of the fan-out goroutines of EncryptKey with 3-4 regions on both (instrumented) plugins. Every iteration order of the region map (n!) x every preferred region through the public constructors. The local AEAD step of the plugins is made to fail (wrap / unwrap): an error is reported and the data-key plaintext is wiped. Regional failures shaped like timeouts / cancellations of the single request (every region in turn, every shape) must not stop the fallback. The v2 plugin is also built from a base configuration that already names a region.", "6/C17"),
    "C18": ("exploration", "exhaustive product of input shapes checked in both directions against an independent reference implementation written from the documentation",
            "Payload shapes x partition ids x timestamps x revoked x plain/suffixed hierarchy x static/AWS KMS x storage channel (memory, SQL text, DynamoDB v1/v2 items): the reference decodes the bytes the SDK stored with its own decoders (exact JSON keys, base64, ciphertext||tag||nonce, key-id format) and decrypts; the SDK decrypts rows and records the reference wrote; protobuf mapping through the real sidecar handler; v1<->v2 DynamoDB item exchange.", "6/C18"),
    "C20": ("model_checking", K_TECH + "; repetition probes from every state",
            "From every state of the history space, every succeeding encrypt/decrypt on a long-lived session is repeated immediately, 61 s, 599 s and 601 s later, and immediately after one other operation on the same partition (e.g. a decrypt of an old-generation record), and the metastore/KMS calls of the repetition are counted; the KMS log of every probe history is checked for two unwraps of one system key by one factory within an interval; with caching disabled every repetition must hit the metastore and leave no live secret; plus schedules in which two goroutines hit a stale system key / shared intermediate key together (one unwrap, one record read). A configuration with different IK / SK cache capacities is probed with alternating partitions (third round free of calls).", "6/C20"),
})

NOT_YET = {}


def main():
    props = [json.loads(l) for l in open(os.path.join(VERIF, "properties.jsonl"))]
    checks = []
    na = []
    for p in props:
        pid = p["id"]
        if pid in CHECKS:
            cat, tech, text, ref = CHECKS[pid]
            checks.append({
                "property_id": pid,
                "quick_cmd": "python3 check.py %s --tier quick" % pid,
                "thorough_cmd": "python3 check.py %s --tier thorough" % pid,
                "evidence_file": "/verif/evidence/%s.json" % pid,
                "replay_cmd_template": "python3 check.py %s --replay {path}" % pid,
                "engine": "vharness",
                "level_claimed": {"category": cat, "text": text, "design_ref": "DESIGN.md section " + ref},
                "level_note": TRUST,
                "technique": tech,
            })
        else:
            na.append({"property_id": pid, "reason": NOT_YET.get(pid, "check not built yet in this session (planned, see DESIGN.md section 6); not claimed until it exists")})
    m = {
        "version": 1,
        "setup_cmd": "bash setup.sh",
        "hooks": {
            "guard": "none: no instrumentation is committed to /repo; a go build -overlay is generated from the working tree at check time",
            "enable": "python3 check.py <id> regenerates /verif/.work/overlay-* with mc/cmd/gen and builds mc/cmd/vharness with -overlay",
            "baseline_off_cmd": "for m in $(cat /w/out/gomods.txt); do MF=$(cd /repo/$m && . /w/out/goenv.sh && gomodflag); (cd /repo/$m && go test $MF -json -vet=off -count=1 -timeout 25m ./...); done",
            "source_commits": [],
            "add_only": True,
        },
        "engines": [
            {"name": "vharness", "path": "/verif/mc", "serves_properties": sorted(CHECKS),
             "kind_free_text": "hand-written model checker for Go: controlled cooperative scheduler (vsched) + shims bound to the real code through a generated build overlay; "
                               "stateless DFS over schedules/environment choices with preemption and deviation bounds and happens-before caching; "
                               "explicit-state BFS over operation histories with a canonical dump of the real objects as state key"},
        ],
        "checks": checks,
        "not_applicable": na,
        "notes": "All checks rebuild from /repo's working tree on every run. Fix commits in /repo are listed in known_findings.json (status fixed).",
    }
    with open(os.path.join(VERIF, "MANIFEST.json"), "w") as f:
        json.dump(m, f, indent=1)
    print("MANIFEST.json: %d checks, %d not_applicable" % (len(checks), len(na)))


if __name__ == "__main__":
    main()
