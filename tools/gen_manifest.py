#!/usr/bin/env python3
"""Writes /verif/MANIFEST.json from the table below (kept in one place so that it stays valid)."""
import json
import os

VERIF = os.path.dirname(os.path.dirname(os.path.abspath(__file__)))

TRUST = ("Trusted base: the asherahverif shims (vsync/vatomic/Chan/vclock/vrand) faithfully model Go's sync, atomic and channel "
         "semantics under sequential consistency; the AST overlay generator rewrites only imports, go statements, channel operations, "
         "time.Now, crypto/rand and map ranges; doubles answer within the documented Metastore/KMS/memcall contracts. "
         "Coverage is bounded as stated in the evidence (threads, preemptions, depth, deviations, alphabets).")

# id -> (category, technique, text, design_ref, built)
K_TECH = "explicit-state breadth-first search over operation histories executed on the real SDK under a virtual clock (state = canonical dump of the real object graph), oracle on every transition and state"
CHECKS = {
    "C01": ("model_checking", K_TECH,
            "BFS over histories of encrypt/decrypt (long-lived and per-request sessions of two processes), clock ticks across the precision / revoke-check / expiry thresholds, out-of-band revocation, restart and session close, for several cache configurations; on every transition decrypt results are compared with the original payload and in every state every catalogued record is decrypted by a fresh SDK factory and by an independent reference decryptor over the metastore snapshot.", "6/C01"),
    "C03": ("model_checking", K_TECH + "; AEAD/KMS/allocator call monitors",
            "The same history space with monitors on every AEAD, KMS and secret-allocation call: one fresh data key per encrypt used once and wrapped once, no (key, nonce) repeated in a history (deterministic logged random source), payload only under data keys, data keys only under the partition's IK, IKs only under the SK, SK only to the KMS, and a byte-window leak scan of records, rows and log lines.", "6/C03"),
    "C04": ("model_checking", K_TECH,
            "The same history space; on every encrypt transition the named IK's age, the parent SK of every IK row written, and the time since the parent SK expired are computed from row stamps and the virtual clock, independently of the SDK's predicates.", "6/C04"),
    "C05": ("model_checking", K_TECH,
            "The same history space with a ghost 'revoked at' stamp per row; every encrypt more than one interval after an IK revocation (two after an SK revocation) must not use / create under the revoked key.", "6/C05"),
    "C06": ("exploration", "exhaustive enumeration of an adversarial id universe (all ordered pairs) on the real SDK",
            "All concatenations of up to 3 (thorough: 4) tokens from the naming scheme's own vocabulary as partition ids; every ordered pair (P,Q): session P must fail on Q's genuine record; with/without region suffix, two service/product pairs, per-session / shared / no key cache.", "6/C06"),
    "C07": ("exploration", "bounded-exhaustive mutation enumeration (every single-bit flip, truncation, field recombination, structural case) on the real SDK",
            "Every single-bit flip and truncation of Data and wrapped key of 4 genuine records, all 4^5 field recombinations, structural cases, loader failures, and every bit flip / truncation / structural corruption of every metastore row, through Decrypt and Load with cold, warm and stale caches; result must be the original payload or an error, never a panic.", "6/C07"),
    "C08": ("model_checking", "stateless schedule exploration of the real code under a controlled scheduler (preemption-bounded DFS + happens-before state caching)",
            "Every interleaving, up to the stated preemption bound, of 2-3 goroutines decrypting/encrypting/opening sessions against one factory "
            "with capacity-1/2 shared key caches of each eviction policy is executed on the real SDK; oracle: every operation succeeds with the right bytes, "
            "no access to a destroyed secret, everything released after close.", "6/C08"),
    "C09": ("model_checking", K_TECH + "; tracking secret factory accounting",
            "The same history space with a tracking SecretFactory: after every call data keys are released, with caching disabled nothing stays live, live secrets are exactly the open keys reachable from the caches (walker), at most one per key and cache and never above capacity, and after restart every secret of the closed factory was released exactly once and never touched again.", "6/C09"),
    "C15": ("model_checking", "explicit-state breadth-first search over cache operation histories on the real cache against reference models",
            "BFS over Set/Get/Delete/tick/Len/Close histories on 4 keys for lru/lfu/slru/tinylfu, capacities 1..6 and 99/100/101, with/without expiry, synchronous and asynchronous eviction (event goroutine under the controlled scheduler); each step compared with a reference model: values, Len, exact multiset of eviction callbacks, victims per the policy's definition, no panic/deadlock.", "6/C15"),
    "C19": ("model_checking", "exhaustive enumeration of request sequences against a reference protocol automaton on the real handler",
            "Every sequence of up to 5 (thorough: 6) requests over a 9-request alphabet plus end-of-stream is sent through an in-memory stream into the real AppEncryption.Session (memory metastore, static KMS); one response per request, protocol state enforced, round-trips verified on a second stream, no panic.", "6/C19"),
}

NOT_YET = {}


def main():
    props = [json.loads(l) for l in open(os.path.join(VERIF, "properties.jsonl"))]
    checks = []
    na = []
    for p in props:
        pid = p["id"]
        if pid in CHECKS:
            cat, tech, text, ref = CHECKS[pid]
            checks.append({
                "property_id": pid,
                "quick_cmd": "python3 check.py %s --tier quick" % pid,
                "thorough_cmd": "python3 check.py %s --tier thorough" % pid,
                "evidence_file": "/verif/evidence/%s.json" % pid,
                "replay_cmd_template": "python3 check.py %s --replay {path}" % pid,
                "engine": "vharness",
                "level_claimed": {"category": cat, "text": text, "design_ref": "DESIGN.md section " + ref},
                "level_note": TRUST,
                "technique": tech,
            })
        else:
            na.append({"property_id": pid, "reason": NOT_YET.get(pid, "check not built yet in this session (planned, see DESIGN.md section 6); not claimed until it exists")})
    m = {
        "version": 1,
        "setup_cmd": "bash setup.sh",
        "hooks": {
            "guard": "none: no instrumentation is committed to /repo; a go build -overlay is generated from the working tree at check time",
            "enable": "python3 check.py <id> regenerates /verif/.work/overlay-* with mc/cmd/gen and builds mc/cmd/vharness with -overlay",
            "baseline_off_cmd": "for m in $(cat /w/out/gomods.txt); do MF=$(cd /repo/$m && . /w/out/goenv.sh && gomodflag); (cd /repo/$m && go test $MF -json -vet=off -count=1 -timeout 25m ./...); done",
            "source_commits": [],
            "add_only": True,
        },
        "engines": [
            {"name": "vharness", "path": "/verif/mc", "serves_properties": sorted(CHECKS),
             "kind_free_text": "hand-written model checker for Go: controlled cooperative scheduler (vsched) + shims bound to the real code through a generated build overlay; "
                               "stateless DFS over schedules/environment choices with preemption and deviation bounds and happens-before caching; "
                               "explicit-state BFS over operation histories with a canonical dump of the real objects as state key"},
        ],
        "checks": checks,
        "not_applicable": na,
        "notes": "All checks rebuild from /repo's working tree on every run. Fix commits in /repo are listed in known_findings.json (status fixed).",
    }
    with open(os.path.join(VERIF, "MANIFEST.json"), "w") as f:
        json.dump(m, f, indent=1)
    print("MANIFEST.json: %d checks, %d not_applicable" % (len(checks), len(na)))


if __name__ == "__main__":
    main()
