#!/usr/bin/env python3
"""Evaluates one seeded change produced by an independent sub-agent.

  eval_seed.py <seed-dir> <property-id> [--name NAME] [--skip-suite] [--checks C01,C02,...] [--thorough]

<seed-dir> holds patch.diff (+ demonstration files, meta.json from the agent); the agent's worktree is expected at
/tmp/seed/<property-id> (only used to learn where the demonstration files live).
Steps (all in a scratch worktree of /repo outside /repo and /verif, removed afterwards):
  1. patch applies;  2. the repository's stable baseline still passes with it;  3. the demonstration fails with the
  change and passes without;  4. the property's check (quick, then thorough if quick misses) is run against the patched
  tree via VERIF_REPO.  Results are written to /verif/seeded/<name>/meta.json next to patch.diff and the demo.
"""
import argparse
import glob
import json
import os
import re
import shutil
import subprocess
import sys
import tempfile
import time

ap = argparse.ArgumentParser()
ap.add_argument("seed_dir")
ap.add_argument("prop")
ap.add_argument("--name")
ap.add_argument("--skip-suite", action="store_true")
ap.add_argument("--checks", default="")
ap.add_argument("--thorough", action="store_true")
ap.add_argument("--runs", type=int, default=2)
ap.add_argument("--agent-wt", default="")
a = ap.parse_args()
name = a.name or a.prop
ENV = dict(os.environ, GOPROXY="off", GOSUMDB="off", GOTOOLCHAIN="local")


def sh(cmd, cwd=None, timeout=3600, env=None):
    p = subprocess.run(cmd, shell=True, cwd=cwd, capture_output=True, text=True, timeout=timeout, env=env or ENV)
    return p.returncode, p.stdout + p.stderr


res = {"property": a.prop, "name": name, "evaluated_at": time.strftime("%Y-%m-%d %H:%M:%S")}
agent_meta = os.path.join(a.seed_dir, "meta.json")
if os.path.exists(agent_meta):
    try:
        res["agent"] = json.load(open(agent_meta))
    except Exception as e:
        res["agent"] = {"unparseable": str(e)}
patch = os.path.join(a.seed_dir, "patch.diff")
wt = tempfile.mkdtemp(prefix="asherah-eval-")
os.rmdir(wt)
rc, out = sh("git -C /repo worktree add -q --detach %s HEAD" % wt)
if rc != 0:
    print(out)
    sys.exit(2)
try:
    rc, out = sh("git apply --whitespace=nowarn %s" % patch, cwd=wt)
    res["patch_applies"] = rc == 0
    if rc != 0:
        res["patch_error"] = out[-800:]
        raise SystemExit
    rc, out = sh("git diff --stat", cwd=wt)
    res["diffstat"] = out.strip().splitlines()[-1] if out.strip() else ""
    nontest = [l for l in sh("git diff --name-only", cwd=wt)[1].split() if not l.endswith("_test.go")]
    res["changed_files"] = nontest
    # ---- demonstration files: untracked files of the agent's worktree
    agent_wt = a.agent_wt or ("/tmp/seed/" + a.prop)
    demos = []
    if os.path.isdir(agent_wt):
        rc, out = sh("git status --short --untracked-files=all", cwd=agent_wt)
        for l in out.splitlines():
            if l.startswith("??"):
                demos.append(l[3:].strip())
    res["demo_files"] = demos
    for d in demos:
        src = os.path.join(agent_wt, d)
        if os.path.isfile(src):
            os.makedirs(os.path.dirname(os.path.join(wt, d)), exist_ok=True)
            shutil.copy(src, os.path.join(wt, d))
    # ---- suite
    if not a.skip_suite:
        # the demo must not be part of the suite run
        for d in demos:
            p = os.path.join(wt, d)
            if os.path.exists(p):
                os.rename(p, p + ".hold")
        rc, out = sh("python3 /verif/tools/baseline_check.py %s" % wt, timeout=3000)
        res["baseline_passes_with_change"] = rc == 0
        res["baseline_output"] = out.strip().splitlines()[:6]
        for d in demos:
            p = os.path.join(wt, d)
            if os.path.exists(p + ".hold"):
                os.rename(p + ".hold", p)
    # ---- demo with / without
    demo_results = []
    for d in demos:
        if not d.endswith("_test.go"):
            continue
        pkgdir = os.path.dirname(os.path.join(wt, d))
        src = open(os.path.join(wt, d)).read()
        tests = re.findall(r"^func (Test\w+)\(", src, re.M)
        if not tests:
            continue
        pat = "^(" + "|".join(tests) + ")$"
        mod = "-mod=mod" if sh("go env GOWORK", cwd=pkgdir)[1].strip() in ("", "off") else ""
        cmd = "go test %s -vet=off -count=1 -timeout 20m -run '%s' ." % (mod, pat)
        rc1, out1 = sh(cmd, cwd=pkgdir, timeout=1500)
        sh("git apply -R --whitespace=nowarn %s" % patch, cwd=wt)
        rc0, out0 = sh(cmd, cwd=pkgdir, timeout=1500)
        sh("git apply --whitespace=nowarn %s" % patch, cwd=wt)
        demo_results.append({"file": d, "cmd": cmd, "fails_with_change": rc1 != 0, "passes_without_change": rc0 == 0,
                             "tail_with": out1.strip().splitlines()[-4:], "tail_without": out0.strip().splitlines()[-2:]})
    res["demo"] = demo_results
    # remove demo files before the checks (they are not part of the change)
    for d in demos:
        p = os.path.join(wt, d)
        if os.path.exists(p):
            os.remove(p)
    # ---- the checks
    checks = [c for c in a.checks.split(",") if c] or [a.prop]
    outv = "/verif/.work/eval-" + name
    det = {}
    for c in checks:
        runs = []
        tiers = ["quick"] * a.runs
        for i, tier in enumerate(tiers):
            t0 = time.time()
            rc, out = sh("python3 /verif/check.py %s --tier %s" % (c, tier), env=dict(ENV, VERIF_REPO=wt, VERIF_SEED=str(i + 1), VERIF_OUT=outv), timeout=3000)
            viol = [l for l in out.splitlines() if l.startswith("VIOLATION")]
            sigs = re.findall(r"signature=(\S+)", out)
            runs.append({"tier": tier, "exit": rc, "violations": len(viol), "signatures": sorted(set(sigs))[:6], "wall_s": round(time.time() - t0, 1),
                         "machinery": [l for l in out.splitlines() if "MACHINERY-ERROR" in l or "INSTRUMENTATION-GAP" in l][:3]})
            if rc != 1:
                break
        if all(r["exit"] != 1 for r in runs) and (a.thorough or True):
            t0 = time.time()
            rc, out = sh("python3 /verif/check.py %s --tier thorough" % c, env=dict(ENV, VERIF_REPO=wt, VERIF_OUT=outv), timeout=6000)
            viol = [l for l in out.splitlines() if l.startswith("VIOLATION")]
            sigs = re.findall(r"signature=(\S+)", out)
            runs.append({"tier": "thorough", "exit": rc, "violations": len(viol), "signatures": sorted(set(sigs))[:6], "wall_s": round(time.time() - t0, 1),
                         "machinery": [l for l in out.splitlines() if "MACHINERY-ERROR" in l or "INSTRUMENTATION-GAP" in l][:3]})
        det[c] = runs
    # keep one replay file of the detection as an artefact
    reps = sorted(glob.glob(outv + "/replays/*.json"))
    res["replay_sample"] = None
    if reps:
        os.makedirs(os.path.join("/verif/seeded", name), exist_ok=True)
        shutil.copy(reps[0], os.path.join("/verif/seeded", name, "detected_replay.json"))
        res["replay_sample"] = "detected_replay.json"
    sh("rm -rf " + outv)
    res["checks"] = det
    res["detected_quick"] = all(r["exit"] == 1 for r in det.get(a.prop, []) if r["tier"] == "quick") and any(r["tier"] == "quick" for r in det.get(a.prop, []))
    res["detected_any"] = any(r["exit"] == 1 for r in det.get(a.prop, []))
finally:
    sh("git -C /repo worktree remove --force %s" % wt)
    sh("rm -rf %s" % wt)
    outdir = os.path.join("/verif/seeded", name)
    os.makedirs(outdir, exist_ok=True)
    if os.path.exists(patch):
        shutil.copy(patch, os.path.join(outdir, "patch.diff"))
    for f in glob.glob(os.path.join(a.seed_dir, "*")):
        b = os.path.basename(f)
        if b in ("patch.diff", "meta.json", "prompt.txt", "property.json") or b.endswith(".log") or os.path.getsize(f) > 200000:
            continue
        if os.path.isfile(f):
            shutil.copy(f, os.path.join(outdir, b))
    json.dump(res, open(os.path.join(outdir, "meta.json"), "w"), indent=1)
    print(json.dumps({k: res.get(k) for k in ("property", "patch_applies", "baseline_passes_with_change", "demo", "detected_quick", "detected_any", "checks")}, indent=1)[:3000])
