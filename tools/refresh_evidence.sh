#!/bin/bash
# Re-runs every registered check in /verif against /repo and leaves the evidence files in /verif/evidence.
# usage: tools/refresh_evidence.sh quick|thorough
tier="${1:-quick}"
cd /verif
rc=0
for p in C01 C02 C03 C04 C05 C06 C07 C08 C09 C10 C11 C12 C13 C14 C15 C16 C17 C18 C19 C20; do
  out=$(python3 check.py $p --tier $tier 2>&1); r=$?
  echo "$out" | grep -E "^$p $tier:|VIOLATION|MACHINERY" | cut -c1-220
  [ $r -ne 0 ] && rc=$r && echo "!! $p exit $r"
done
python3-vt tools/validate.py | tail -1
exit $rc
