#!/usr/bin/env python3
"""Cross-detection matrix: runs every property's QUICK check against every seeded change.
usage: cross_detect.py <seed> [<seed> ...]   (seeds are directory names under /verif/seeded)
Writes /verif/seeded/<seed>/cross.json {property: exit code}."""
import json
import os
import subprocess
import sys
import tempfile

PROPS = ["C%02d" % i for i in range(1, 21)]
ENV = dict(os.environ, GOPROXY="off", GOSUMDB="off", GOTOOLCHAIN="local")
for seed in sys.argv[1:]:
    patch = "/verif/seeded/%s/patch.diff" % seed
    wt = tempfile.mkdtemp(prefix="asherah-cross-")
    os.rmdir(wt)
    subprocess.run("git -C /repo worktree add -q --detach %s HEAD" % wt, shell=True, check=True)
    res = {}
    try:
        if subprocess.run("git apply --whitespace=nowarn %s" % patch, shell=True, cwd=wt).returncode != 0:
            res["error"] = "patch does not apply"
        else:
            outv = "/verif/.work/cross-" + seed
            for p in PROPS:
                r = subprocess.run("python3 /verif/check.py %s --tier quick" % p, shell=True, capture_output=True, text=True,
                                   env=dict(ENV, VERIF_REPO=wt, VERIF_OUT=outv))
                res[p] = r.returncode
            subprocess.run("rm -rf " + outv, shell=True)
    finally:
        subprocess.run("git -C /repo worktree remove --force %s; rm -rf %s" % (wt, wt), shell=True)
    json.dump(res, open("/verif/seeded/%s/cross.json" % seed, "w"), indent=1)
    print(seed, {k: v for k, v in res.items() if v != 0})
