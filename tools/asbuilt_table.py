#!/usr/bin/env python3
"""Prints the as-built summary table of DESIGN.md section 15 with the numbers of the evidence files in /verif/evidence."""
import json

ROWS = [
    ("C01", "kspace/koracle/kbfs + fspace + c01sfx + c17 (c01AWS)", "H + F + S",
     "K: K1 default@5, K2 no-cache@4, K3a shared lru-1@5, K4 session cache@4, K7 narrow alphabet@6 (thorough: 13 configs @5-8 incl. lfu/slru/tinylfu, sk-only, ik-only, lru-2, full alphabet); fault space (recovery after faults); large payloads; default policy; AWS cross-region; region-suffix sequences <= 4; Store/Load sequences <= 4; functional oracle on the session-cache schedules"),
    ("C02", "fspace", "F", "4 cache configs x 8 start states (+ 4 region-suffixed) x one encrypt x every placement of <= 2 non-default answers (metastore error / false duplicate / error-after-write / context cancelled; KMS error / context cancelled); recovery round; thorough: <= 4, 7 configs"),
    ("C03", "K + fspace + c17", "H + F", "K as C01 with the envelope monitor and the log scan on every step; fault space (envelope monitor, log scan on failing operations); AWS plugins with a logger"),
    ("C04", "K + c05f (C04f)", "H + F", "K as C01 with the expiry oracles; expiry timelines (both keys expire / system key first) x <= 2 (3) failing reads"),
    ("C05", "K + c05f", "H + F", "K as C01 with the revocation oracles; revocation timelines (IK / SK revoked; +R+1, +2R+1, +3R+2 ...) x <= 2 (3) failing reads"),
    ("C06", "c06", "product", "~600 ids (<= 3 tokens + normalisation twins), all ordered pairs x 12 configurations (plain/suffixed x 2 service pairs x per-session / shared / session-cache; thorough + no-cache and two 4-token universes)"),
    ("C07", "c07 + c07store", "product", "4 genuine records x (bit flips, truncations, 4^5 recombinations, structural cases, ~200 parent-id strings) x plain / region-suffixed world x cold / warm / stale; every IK/SK row mutation; storage-level corruption of the SQL JSON text (2 dialects) and the DynamoDB items (v1, v2)"),
    ("C08", "c08", "S", "16 scenarios (H1 x 4 policies, H2 mixes, H3 two SK generations, H4 stale refresh, H6 session churn / session cache / two holders, H7 failed decrypt, H8 rotation under old-generation users), preemption bound 2 (thorough 3 + 5 larger incl. asynchronous eviction at capacity 100), HB caching; -race pass in thorough"),
    ("C09", "K + fspace + c08/c16 bodies", "H + F + S", "K as C01 with the release accounting and the reachability walk; the fault space with all fault kinds (metastore, KMS, AEAD, allocator, context); release accounting at the end of the session-cache schedules"),
    ("C10", "fspace + c17", "F", "fault space with all fault kinds; buffers returned by and passed to AEAD / KMS watched by reference; AWS plugin product n <= 2 (3) incl. request plaintexts"),
    ("C11", "c11", "S + H", "(b) 16 scenarios readers / nested / closers / panicking and failing callbacks x 2 implementations, bound 2 (thorough 3, 20 scenarios); (a) all sequences <= 4 (5) of 12 operations on real pages, 2 (5) sizes x 2 implementations, smaps after each step"),
    ("C12", "c12", "F", "20 (28) scripts x every placement of <= 2 (3) failing primitives incl. the random source; callbacks that fail or panic; reads between a failed Close and its retry"),
    ("C13", "c13", "H + S", "closed table space 5^4 (thorough 5^6) x 22 (32) operations x 12 (16) implementations incl. transient read errors and the deprecated constructors; all interleavings of 2 (3) concurrent Stores + reader"),
    ("C14", "c14", "S", "7 (23) scenarios over the spy store: 2 (3) processes x 5 start states (+ bucket crossing), context switches at external calls unbounded; the 2-process race over the real MemoryMetastore (bound 2)"),
    ("C15", "c15", "H + S", "4 policies x capacities 1-3 (1-6) + expiry + async, depth 5 (6); tinylfu 99/100/101; 44 (56) long deterministic histories of 300-6000 steps; asynchronous eviction schedules"),
    ("C16", "c16", "S", "9 (17) scenarios G1-G5, policies slru / lru / default (all 4), bound 2 (3)"),
    ("C17", "c17", "product + S", "n = 1..3 (4) regions, all failing patterns, 5 plugin pairings (incl. the public / deprecated v1 constructors); fan-out schedules 3 (4) regions x 2 plugins, bound 2 (3)"),
    ("C18", "c18", "product", "1200 (2400) points x 2 directions + protobuf + v1<->v2"),
    ("C19", "c19", "sequences + S", "all request sequences <= 5 (6) over 9 requests; <= 4 (5) with session caching; ~17 malformed message shapes x 5 prefixes x 4 continuations (+ ordered pairs) on both sidecar configurations; two concurrent streams"),
    ("C20", "kbfs (probes) + c08 (c20Body)", "H + S", "K1, K3a, K4, K5a @3 and K2 @2 with repetition probes (gaps 0, 61, 599, 601 s; mixed X;Y;X) x <= 4 operations per state; stale-key call-count schedules"),
]


def fmt(n):
    return "%.1e" % n if n >= 100000 else str(n)


print("| id | harness files | shape | what is enumerated, quick (thorough) | quick: evaluations / states / transitions / wall |")
print("|---|---|---|---|---|")
for pid, files, shape, what in ROWS:
    try:
        e = json.load(open("/verif/evidence/%s.json" % pid))
        c = e["coverage"]
        size = "%s / %s / %s / %.0f s (%s)" % (fmt(c["evaluations"]), fmt(c["states"]), fmt(c["transitions"]), e.get("wall_s", 0), e.get("tier"))
    except Exception as ex:
        size = "n/a"
    print("| %s | %s | %s | %s | %s |" % (pid, files, shape, what, size))
