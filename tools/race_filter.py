#!/usr/bin/env python3
"""Classifies `go build -race` reports of the free-running pass: a report counts against the explorer's assumption
only if one of the two conflicting accesses happens in code of the repository (innermost non-runtime frame in
github.com/godaddy/asherah/...); races between the doubles / harness bookkeeping themselves are ignored."""
import glob, re, sys, json

def parse(files):
    reports = []
    for fn in files:
        txt = open(fn, errors='replace').read()
        for block in txt.split('WARNING: DATA RACE')[1:]:
            block = block.split('==================')[0]
            accesses = re.split(r'\n(?=(?:Previous )?(?:[Rr]ead|[Ww]rite|atomic [a-z]+) at |Goroutine )', block)
            tops = []
            for a in accesses:
                if not re.match(r'\s*(Previous )?(read|write|Read|Write|atomic)', a.strip()):
                    continue
                frames = re.findall(r'^\s{2}(\S+)\(\)\n\s+(\S+):(\d+)', a, re.M)
                top = None
                for fn_, file_, line in frames:
                    if fn_.startswith('runtime.') or fn_.startswith('sync/atomic.') or fn_.startswith('internal/'):
                        continue
                    top = (fn_, file_, line)
                    break
                tops.append(top)
            reports.append(tops)
    return reports

if __name__ == '__main__':
    reps = parse(sys.argv[1:])
    impl, ignored = [], 0
    for tops in reps:
        if any(t and ('github.com/godaddy/asherah' in t[0] or '/repo/' in t[1]) for t in tops):
            impl.append([('%s %s:%s' % t) if t else '?' for t in tops])
        else:
            ignored += 1
    print(json.dumps({'reports': len(reps), 'in_repository_code': len(impl), 'between_doubles_or_harness': ignored, 'samples': impl[:5]}, indent=1))
