#!/usr/bin/env python3
"""Re-runs only the detection part of a seed's evaluation (the property's quick check, twice, against the patched tree)
with the current machinery and updates checks / detected_quick / detected_any in /verif/seeded/<seed>/meta.json; the
suite and demonstration results recorded earlier are kept.   usage: recheck_seed.py <seed> [<seed>...]"""
import json, os, re, subprocess, sys, tempfile, time

ENV = dict(os.environ, GOPROXY="off", GOSUMDB="off", GOTOOLCHAIN="local")
for seed in sys.argv[1:]:
    prop = seed[:3]
    d = "/verif/seeded/" + seed
    meta = json.load(open(d + "/meta.json"))
    wt = tempfile.mkdtemp(prefix="asherah-recheck-")
    os.rmdir(wt)
    subprocess.run("git -C /repo worktree add -q --detach %s HEAD" % wt, shell=True, check=True)
    try:
        subprocess.run("git apply --whitespace=nowarn %s/patch.diff" % d, shell=True, cwd=wt, check=True)
        outv = "/verif/.work/recheck-" + seed
        runs = []
        for i in (1, 2):
            t0 = time.time()
            r = subprocess.run("python3 /verif/check.py %s --tier quick" % prop, shell=True, capture_output=True, text=True,
                               env=dict(ENV, VERIF_REPO=wt, VERIF_SEED=str(i), VERIF_OUT=outv))
            out = r.stdout + r.stderr
            runs.append({"tier": "quick", "exit": r.returncode, "violations": len([l for l in out.splitlines() if l.startswith("VIOLATION")]),
                         "signatures": sorted(set(re.findall(r"signature=(\S+)", out)))[:6], "wall_s": round(time.time() - t0, 1), "machinery": []})
        subprocess.run("rm -rf " + outv, shell=True)
        meta.setdefault("checks_at_first_evaluation", meta.get("checks"))
        meta["checks"] = {prop: runs}
        meta["detected_quick"] = all(x["exit"] == 1 for x in runs)
        meta["detected_any"] = any(x["exit"] == 1 for x in runs)
        meta["rechecked_at"] = time.strftime("%Y-%m-%d %H:%M:%S")
        json.dump(meta, open(d + "/meta.json", "w"), indent=1)
        print(seed, [x["exit"] for x in runs], runs[0]["signatures"][:2], flush=True)
    finally:
        subprocess.run("git -C /repo worktree remove --force %s; rm -rf %s" % (wt, wt), shell=True)
