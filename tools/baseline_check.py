#!/usr/bin/env python3
"""Runs the repository's baseline test command against a tree (default /repo) and reports every test of
BASELINE.json's stable_pass list that does not pass.  usage: baseline_check.py [repo-dir]
Exit 0 iff all 487 stable tests pass."""
import json
import os
import subprocess
import sys

repo = sys.argv[1] if len(sys.argv) > 1 else "/repo"
base = json.load(open("/root/.vp/BASELINE.json"))
mods = [l.strip() for l in open("/w/out/gomods.txt") if l.strip()]
env = dict(os.environ, GOPROXY="off", GOSUMDB="off", GOTOOLCHAIN="local")
passed, failed = set(), set()
for m in mods:
    d = os.path.join(repo, m)
    gw = subprocess.run(["go", "env", "GOWORK"], cwd=d, env=env, capture_output=True, text=True).stdout.strip()
    cmd = ["go", "test"] + (["-mod=mod"] if gw in ("", "off") else []) + ["-json", "-vet=off", "-count=1", "-timeout", "25m", "./..."]
    p = subprocess.run(cmd, cwd=d, env=env, capture_output=True, text=True)
    for line in p.stdout.splitlines():
        if not line.startswith("{"):
            continue
        try:
            ev = json.loads(line)
        except Exception:
            continue
        a, t = ev.get("Action"), ev.get("Test")
        if t is None or a not in ("pass", "fail"):
            continue
        tid = ev.get("Package", "") + "::" + t
        (passed if a == "pass" else failed).add(tid)
passed -= failed
missing = [t for t in base["stable_pass"] if t not in passed]
print("stable tests: %d, passing now: %d, not passing: %d" % (len(base["stable_pass"]), len(base["stable_pass"]) - len(missing), len(missing)))
for t in missing[:40]:
    print("  NOT PASSING:", t, "(failed)" if t in failed else "(not run)")
sys.exit(1 if missing else 0)
