#!/usr/bin/env python3
"""Prints the markdown tables of seeded changes (one per round) from /verif/seeded/*/meta.json.
Round 1 = <id>, round 2 = <id>b, round 3 = <id>c, round 4 = <id>d, round 5 = <id>e."""
import glob, json, os, re

# seeds the first version of the property's check did not report (see DESIGN.md section 12 for what was added)
MISSED_FIRST = {
    1: {"C02": "quick (thorough caught it)", "C11": "", "C13": ""},
    2: {"C01": "", "C05": "quick (thorough caught it)", "C06": "", "C08": "", "C09": "", "C13": "", "C20": ""},
    3: {"C01": "", "C03": "", "C05": "", "C07": "", "C08": "", "C10": "", "C11": "", "C12": "", "C14": "", "C17": "", "C19": "", "C20": ""},
    4: {"C01": "", "C02": "", "C03": "", "C04": "quick (thorough reaches the history at depth 6)", "C08": "", "C10": "", "C12": "", "C13": "", "C14": "C13 reported it", "C17": "", "C20": ""},
    5: {"C01": "", "C02": "", "C03": "", "C06": "", "C07": "", "C08": "", "C09": "", "C13": "", "C17": "", "C19": "the harness could not be built against it (sync.Pool was not in the shim)"},
    6: {"C02": "", "C03": "", "C13": "", "C17": ""},
    7: {"C02": "", "C03": "", "C13": "", "C17": ""},
}


def row(f):
    m = json.load(open(f))
    name = os.path.basename(os.path.dirname(f))
    ag = m.get('agent') or {}
    files = ', '.join('`%s`' % os.path.basename(x) for x in (m.get('changed_files') or ag.get('files') or []))
    summ = (ag.get('summary') or '').replace('|', '/').replace('\n', ' ')
    summ = summ[:260] + ('...' if len(summ) > 260 else '')
    need = (ag.get('needs_to_manifest') or '').replace('|', '/').replace('\n', ' ')
    need = need[:180] + ('...' if len(need) > 180 else '')
    demo = m.get('demo') or []
    demo_ok = 'yes / yes' if demo and all(d['fails_with_change'] and d['passes_without_change'] for d in demo) else ('not run' if not demo else 'NO')
    base = m.get('baseline_passes_with_change')
    base_s = {True: 'yes', False: 'NO', None: 'not run'}[base]
    ch = m.get('checks') or {}
    det = []
    for c, rs in ch.items():
        for r in rs:
            if r['exit'] == 1:
                sigs = sorted(set(s.split('@')[0] for s in r['signatures']))
                det.append('%s %s: %s' % (c, r['tier'], ', '.join('`%s`' % s for s in sigs[:2])))
                break
        else:
            det.append('%s MISSED' % c)
    return name, '| %s | %s | %s | %s | %s | %s | %s |' % (name, files, summ, need, base_s, demo_ok, '; '.join(det))


rounds = {1: [], 2: [], 3: [], 4: [], 5: [], 6: [], 7: []}
for f in sorted(glob.glob('/verif/seeded/*/meta.json')):
    name = os.path.basename(os.path.dirname(f))
    rnd = {'': 1, 'b': 2, 'c': 3, 'd': 4, 'e': 5, 'f': 6, 'g': 7}[re.sub(r'^C\d\d', '', name)]
    rounds[rnd].append(row(f))
for rnd in (1, 2, 3, 4, 5, 6, 7):
    if not rounds[rnd]:
        continue
    print('\n**Change no. %d per property** (%d changes)\n' % (rnd, len(rounds[rnd])))
    print('| seed | file | change | what it needs to manifest | suite passes with it | demo fails with / passes without | reported by (final machinery) |')
    print('|---|---|---|---|---|---|---|')
    for name, line in rounds[rnd]:
        print(line)
    miss = MISSED_FIRST[rnd]
    print('\nMissed by the first version of the check that met it: %s.' % (', '.join('%s%s' % (k + {1: '', 2: 'b', 3: 'c', 4: 'd', 5: 'e', 6: 'f', 7: 'g'}[rnd], (' - ' + v) if v else '') for k, v in sorted(miss.items())) or 'none'))
