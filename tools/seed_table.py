#!/usr/bin/env python3
"""Prints the markdown table of seeded changes from /verif/seeded/*/meta.json."""
import glob, json, os
rows = []
for f in sorted(glob.glob('/verif/seeded/*/meta.json')):
    m = json.load(open(f))
    name = os.path.basename(os.path.dirname(f))
    ag = m.get('agent') or {}
    summ = (ag.get('summary') or '')[:230].replace('|', '/').replace('\n', ' ')
    need = (ag.get('needs_to_manifest') or '')[:200].replace('|', '/').replace('\n', ' ')
    demo = m.get('demo') or []
    demo_ok = 'yes' if demo and all(d['fails_with_change'] and d['passes_without_change'] for d in demo) else ('n/a' if not demo else 'NO')
    base = m.get('baseline_passes_with_change')
    base_s = {True: 'yes', False: 'NO', None: 'not run'}[base]
    ch = m.get('checks') or {}
    det = []
    for c, rs in ch.items():
        for r in rs:
            if r['exit'] == 1:
                det.append('%s %s (%s)' % (c, r['tier'], ', '.join(s.split('@')[0] for s in r['signatures'][:2])))
                break
        else:
            det.append('%s MISSED' % c)
    hist = m.get('history_note', '')
    rows.append('| %s | %s | %s | %s | %s | %s %s |' % (name, summ, need, base_s, demo_ok, '; '.join(det), hist))
print('| seed | change | needs | suite passes | demo fails-with / passes-without | caught by |')
print('|---|---|---|---|---|---|')
print('\n'.join(rows))
