#!/usr/bin/env python3
"""Mutation screening (development aid, not a registered check): applies simple source mutants (tools: mc/cmd/mutgen)
to scratch worktrees of /repo and runs the quick checks mapped to the mutated file until one reports a violation.
Survivors are code changes no check notices: candidates for a missing harness dimension (or equivalent mutants).
usage: mutate.py <out.jsonl> <workers> <file> [<file>...]        (files relative to the repo root)"""
import json, os, subprocess, sys, threading, queue, time

OUT, NW, FILES = sys.argv[1], int(sys.argv[2]), sys.argv[3:]
ENV = dict(os.environ, GOPROXY="off", GOSUMDB="off", GOTOOLCHAIN="local", VHARNESS_KDEPTH_DELTA="-1")
CORE = ["C02", "C10", "C07", "C14", "C06", "C20", "C19", "C08", "C16", "C09", "C05", "C04", "C03", "C01"]
MAP = [
    ("go/appencryption/session_cache.go", ["C16", "C08", "C19", "C09", "C01"]),
    ("go/appencryption/pkg/cache/", ["C15", "C16", "C08", "C20", "C09"]),
    ("go/securememory/", ["C12", "C11"]),
    ("go/appencryption/pkg/persistence/", ["C13", "C18", "C14", "C19"]),
    ("go/appencryption/plugins/aws-v1/persistence/", ["C13", "C18"]),
    ("go/appencryption/plugins/aws-v2/dynamodb/", ["C13", "C18"]),
    ("go/appencryption/plugins/aws-v1/kms/", ["C17", "C10", "C01"]),
    ("go/appencryption/plugins/aws-v2/kms/", ["C17", "C10", "C01"]),
    ("go/appencryption/pkg/crypto/", ["C07", "C18", "C10", "C03", "C19"]),
    ("go/appencryption/pkg/kms/", ["C18", "C10", "C02", "C03"]),
    ("server/go/", ["C19", "C18"]),
    ("go/appencryption/", CORE),
]


def props_for(f):
    for pre, ps in MAP:
        if f.startswith(pre):
            return ps
    return CORE


muts = []
for f in FILES:
    p = subprocess.run(["/verif/.work/bin/mutgen", f], cwd="/repo", capture_output=True, text=True)
    for l in p.stdout.splitlines():
        muts.append(json.loads(l))
done = set()
if os.path.exists(OUT):
    for l in open(OUT):
        d = json.loads(l)
        done.add((d["file"], d["start"], d["kind"]))
q = queue.Queue()
for m in muts:
    if (m["file"], m["start"], m["kind"]) not in done:
        q.put(m)
print("mutants: %d (%d already done)" % (len(muts), len(done)), flush=True)
lock = threading.Lock()


def worker(i):
    wt = "/tmp/mut/%d-w%d" % (os.getpid(), i)
    subprocess.run("rm -rf %s; git -C /repo worktree prune; git -C /repo worktree add -q --detach %s HEAD" % (wt, wt), shell=True, check=True)
    outdir = "/verif/.work/mut-out-%d" % i
    try:
        while True:
            try:
                m = q.get_nowait()
            except queue.Empty:
                return
            path = os.path.join(wt, m["file"])
            src = open(path, "rb").read()
            open(path, "wb").write(src[:m["start"]] + m["repl"].encode() + src[m["end"]:])
            res = dict(m, verdict="SURVIVED", by="", secs=0)
            t0 = time.time()
            for p in props_for(m["file"]):
                r = subprocess.run("nice -n 10 python3 /verif/check.py %s --tier quick" % p, shell=True, capture_output=True, text=True,
                                   env=dict(ENV, VERIF_REPO=wt, VERIF_OUT=outdir))
                if r.returncode == 1:
                    sig = [l.split("signature=")[1].split()[0] for l in r.stdout.splitlines() if "signature=" in l][:1]
                    res.update(verdict="killed", by=p, sig=(sig or [""])[0])
                    break
                if r.returncode == 2:
                    res.update(verdict="invalid" if "build failed" in r.stdout + r.stderr else "machinery-exit-2", by=p, detail=(r.stdout + r.stderr)[-300:])
                    break
                if r.returncode not in (0, 1, 2):
                    res.update(verdict="crash-exit-%d" % r.returncode, by=p, detail=(r.stdout + r.stderr)[-300:])
                    break
            res["secs"] = round(time.time() - t0, 1)
            open(path, "wb").write(src)
            with lock:
                with open(OUT, "a") as f:
                    f.write(json.dumps(res) + "\n")
                print(res["verdict"], res.get("by", ""), m["file"], m["line"], m["kind"], m["text"][:70], flush=True)
    finally:
        subprocess.run("git -C /repo worktree remove --force %s; rm -rf %s %s" % (wt, wt, outdir), shell=True)


ts = [threading.Thread(target=worker, args=(i,)) for i in range(NW)]
for t in ts:
    t.start()
for t in ts:
    t.join()
print("DONE", flush=True)
