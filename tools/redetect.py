#!/usr/bin/env python3
"""Re-runs the QUICK check of each seeded change's own property against the change (scratch worktree, VERIF_REPO,
VERIF_OUT) and prints one line per seed; exit 1 if a seed is no longer reported. usage: redetect.py [seed ...]"""
import glob, os, re, subprocess, sys, tempfile

ENV = dict(os.environ, GOPROXY="off", GOSUMDB="off", GOTOOLCHAIN="local")
seeds = sys.argv[1:] or sorted(os.path.basename(os.path.dirname(p)) for p in glob.glob("/verif/seeded/*/patch.diff"))
missed = []
for seed in seeds:
    prop = seed[:3]
    wt = tempfile.mkdtemp(prefix="asherah-redetect-")
    os.rmdir(wt)
    subprocess.run("git -C /repo worktree add -q --detach %s HEAD" % wt, shell=True, check=True)
    try:
        if subprocess.run("git apply --whitespace=nowarn /verif/seeded/%s/patch.diff" % seed, shell=True, cwd=wt).returncode != 0:
            print(seed, "PATCH DOES NOT APPLY", flush=True)
            missed.append(seed)
            continue
        out = "/verif/.work/redetect-" + seed
        r = subprocess.run("python3 /verif/check.py %s --tier quick" % prop, shell=True, capture_output=True, text=True, env=dict(ENV, VERIF_REPO=wt, VERIF_OUT=out))
        sigs = sorted(set(re.findall(r"signature=(\S+)", r.stdout)))
        print(seed, "exit", r.returncode, ", ".join(s.split("@")[0] for s in sigs[:3]), flush=True)
        if r.returncode != 1:
            missed.append(seed)
        subprocess.run("rm -rf " + out, shell=True)
    finally:
        subprocess.run("git -C /repo worktree remove --force %s; rm -rf %s" % (wt, wt), shell=True)
print("MISSED:", missed)
sys.exit(1 if missed else 0)
