#!/usr/bin/env python3
"""Regenerates the tables of DESIGN.md sections 14 (seeded changes) and 15 (as-built summary) from /verif/seeded and
/verif/evidence. The prose around them is kept in this file."""
import re, subprocess

p = "/verif/DESIGN.md"
s = open(p).read()
seed_tables = subprocess.run(["python3", "/verif/tools/seed_table.py"], capture_output=True, text=True).stdout
asbuilt = subprocess.run(["python3", "/verif/tools/asbuilt_table.py"], capture_output=True, text=True).stdout

sec14 = '''## 14. Seeded changes by independent sub-agents

For each property a fresh sub-agent received only the property's JSON record and its own scratch worktree
(nothing from `/verif`) and produced one change that breaks the property while compiling and passing the
existing suite, with a demonstration. This was repeated in seven rounds; from round 2 on the agent was also
told what the earlier changes for the same property were and had to differ from all of them in mechanism,
location, clause, configuration or kind of trigger (round 5 only for the eleven properties whose round-4
change had been missed, round 6 only for the six whose round-5 change had been missed, round 7 a further change for thirteen properties; the tables below are grouped by the number of the change per property). Each change was confirmed here with `tools/eval_seed.py` in a scratch worktree outside
`/repo` and `/verif`: the patch applies, **all 487 stable baseline tests pass with it**
(`tools/baseline_check.py`), the demonstration **fails with the change and passes without it**, and the
property's check was run against the patched tree (`VERIF_REPO`, two quick runs with different seeds,
thorough only if quick missed). Everything is kept in `/verif/seeded/<name>/` (`patch.diff`, the
demonstration, `demo.txt`, `meta.json` with what was run and observed, `detected_replay.json`; round 1 also
`cross.json` = exit code of every other property's quick check against the same change). No seeded change was
ever committed to `/repo`.

**Result.** With the machinery as committed, the quick tier of the property's own check reports every one of
the changes (`tools/redetect.py` re-runs all of them; last runs: none missed). That is the *end* state: on
first contact the checks missed 3 of 20 changes in round 1, 7 of 20 in round 2, 12 of 20 in round 3, 11 of 20
in round 4, 6 of 11 in round 5, 4 of 6 in round 6 and 8 of 13 in round 7 - the later rounds were aimed at whatever the earlier ones had left
untouched. Every miss was closed by adding the missing dimension to the harness (never by loosening an
oracle); section 12 lists each gap and what was added. The "reported by" column shows the signatures at the time
of the seed's evaluation (after the strengthening it triggered).
''' + seed_tables + '''
Cross-detection (quick tier of *other* properties against round 1, from `seeded/*/cross.json`): the `tryStore` /
unsaved-key changes (seeds C01, C02) are also reported by C03, C09, C14, C19 and (C01) C20; the parent-SK shadowing
change (seed C14) also by C04 and C05; most other changes are only visible to their own property's check, as
intended by the property split. Later rounds repeatedly produced the *same* defect under different properties
(e.g. `tryStore` ignoring the boolean: C01, C03b, C05d; `write()` releasing the previous generation: C05b, C08d;
the `if`/`for` slip in `Remove`: C16, C08b, C01c), which is why several oracles now run under more than one
property's check (functional results and release accounting on the schedule harnesses, the fault space under
C01/C02/C03/C09/C10, the real-store races under C02/C03/C14).

---

'''

sec15_head = '''## 15. As-built summary per property

Harness files are `mc/harness/<file>`; numbers are from the committed quick-tier evidence on the repaired tree
(wall-clock on the loaded build machine). "K" is the shared history space of section 6.

''' + asbuilt + '''
'''

i14 = s.index("## 14. Seeded changes by independent sub-agents")
i15 = s.index("## 15. As-built summary per property")
tail15 = s[i15:]
m = re.search(r"\nThe free-running `-race` pass", tail15)
rest = tail15[m.start():] if m else "\n"
s = s[:i14] + sec14 + sec15_head + rest.lstrip("\n")
open(p, "w").write(s)
print("DESIGN.md sections 14/15 regenerated")
