#!/bin/bash
# usage: tools/run_patched.sh <patch-file|git-ref> <tier> <prop> [prop...]
# Applies a patch (or checks out a ref) in a scratch worktree of /repo outside /repo and /verif, runs the
# checks against it (VERIF_REPO), removes the worktree. Evidence/replays go to a scratch verif dir copy? No:
# check.py writes into /verif/evidence, so evidence is saved and restored around the run.
set -u
what="$1"; tier="$2"; shift 2
wt=$(mktemp -d /tmp/asherah-wt-XXXXXX)
rmdir "$wt"
if [ -f "$what" ]; then
  git -C /repo worktree add -q --detach "$wt" HEAD || exit 2
  git -C "$wt" apply "$what" || { git -C /repo worktree remove --force "$wt"; echo "patch does not apply"; exit 2; }
else
  git -C /repo worktree add -q --detach "$wt" "$what" || exit 2
fi
mkdir -p /verif/.work/evsave; cp -a /verif/evidence/. /verif/.work/evsave/ 2>/dev/null
rc=0
for p in "$@"; do
  VERIF_REPO="$wt" python3 /verif/check.py "$p" --tier "$tier" 2>&1 | grep -v '^  ' | cut -c1-600 | tail -${TAILN:-8}
  r=${PIPESTATUS[0]}; [ $r -ne 0 ] && rc=$r
  echo "== $p exit $r"
done
cp -a /verif/.work/evsave/. /verif/evidence/ 2>/dev/null; rm -rf /verif/.work/evsave
git -C /repo worktree remove --force "$wt"
exit $rc
