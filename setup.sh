#!/bin/bash
# Offline set-up: builds the generator and warms the Go build cache with an instrumented harness build.
set -e
cd "$(dirname "$0")"
export GOFLAGS=-mod=mod GOPROXY=off GOSUMDB=off GOTOOLCHAIN=local GOWORK=off GOCACHE="$PWD/.cache/gobuild"
mkdir -p .work/bin .cache/gobuild evidence replays
(cd mc && go build -o ../.work/bin/gen ./cmd/gen)
./.work/bin/gen -repo "${VERIF_REPO:-/repo}" -out .work/overlay-setup -extra mc/gen_extra
(cd mc && go build -overlay ../.work/overlay-setup/overlay.json -o ../.work/bin/vharness-setup ./cmd/vharness)
rm -rf .work/overlay-setup .work/bin/vharness-setup
echo "setup ok"
