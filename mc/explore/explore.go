// Package explore is the bounded exhaustive search over the choice trees produced by
// vsched executions: stateless DFS with independent preemption / deviation budgets,
// optional happens-before state caching, optional sharding, replay.
package explore

import (
	"fmt"
	"hash/fnv"
	"sort"
	"time"

	"asherahverif/shim/vclock"
	"asherahverif/shim/vrand"
	"asherahverif/shim/vsched"
)

// Config bounds one exploration.
type Config struct {
	Name         string
	Preemptions  int  // -1 = unbounded
	Deviations   int  // -1 = unbounded
	HBCache      bool // prune prefixes whose happens-before state was already expanded
	ExtOnly      bool // preemptions are only placed at external calls (Op.Ext)
	MaxExec      int  // 0 = none
	Deadline     time.Time
	Shard, Shards int // Shards<=1: no sharding
	MaxSteps     int
	StopAtFirst  bool
	MaxViolations int
	// SigFilter, if set, keeps only the oracle failures whose signature it accepts
	// (one harness body may carry the oracles of several properties).
	SigFilter func(sig string) bool
}

// Violation is one failed execution.
type Violation struct {
	Choices []int    `json:"choices"`
	Msg     string   `json:"msg"`
	Sig     string   `json:"signature"`
	Trace   []string `json:"trace,omitempty"`
}

// Result aggregates an exploration.
type Result struct {
	Name          string
	Executions    int
	Complete      int // executions that ran to the end (not pruned)
	Pruned        int
	Points        int64
	ChoicePoints  int64
	States        int // distinct HB state keys seen at choice points (+ terminal)
	Conflicting   int // executions with at least one cross-thread conflict
	Outcomes      map[string]int
	Violations    []Violation
	Exhaustive    bool
	CapHit        string
	MaxChoiceLen  int
	Deadlocks     int
	SampleTraces  [][]string
	Nondeterminism string
}

// Ctx is handed to the harness body for reporting.
type Ctx struct {
	fails   []string
	sigs    []string
	sig     string
	outcome string
	Replay  bool // true when replaying with traces on
}

// Failf records an oracle failure for this execution. sig identifies the failure class
// (used to match known findings).
func (c *Ctx) Failf(sig, format string, args ...interface{}) {
	c.fails = append(c.fails, fmt.Sprintf(format, args...))
	c.sigs = append(c.sigs, sig)
	if c.sig == "" {
		c.sig = sig
	}
}

// Outcome records the observable outcome of the execution (for non-vacuity statistics).
func (c *Ctx) Outcome(s string) { c.outcome = s }

// Failed reports whether a failure was recorded.
func (c *Ctx) Failed() bool { return len(c.fails) > 0 }

// Body is one harness: it runs as logical thread 0.
type Body func(c *Ctx)

type node struct {
	prefix []int
	depth  int // tree depth (number of non-default decisions)
}

func runOnce(cfg *Config, body Body, prefix []int, keepTrace bool, onChoice func(x *vsched.Exec, cp *vsched.ChoicePoint) bool) (*vsched.Exec, *Ctx) {
	vclock.Reset()
	vrand.Reset()
	c := &Ctx{Replay: keepTrace}
	x := vsched.Run(vsched.RunOptions{Prefix: prefix, MaxSteps: cfg.MaxSteps, KeepTrace: keepTrace, OnChoice: onChoice}, func() {
		body(c)
	})
	return x, c
}

func cost(cp *vsched.ChoicePoint, alt int) (pre, dev int) {
	if alt == 0 {
		return 0, 0
	}
	if cp.Env {
		return 0, 1
	}
	if cp.CurEnabled {
		return 1, 0
	}
	return 0, 0
}

func hashPrefix(p []int) uint64 {
	h := fnv.New64a()
	for _, v := range p {
		h.Write([]byte{byte(v), byte(v >> 8)})
	}
	return h.Sum64()
}

// Explore runs the bounded exhaustive search.
func Explore(cfg Config, body Body) *Result {
	res := &Result{Name: cfg.Name, Outcomes: map[string]int{}, Exhaustive: true}
	if cfg.MaxViolations == 0 {
		cfg.MaxViolations = 20
	}
	type budget struct{ pre, dev int }
	visited := map[uint64]budget{} // HB key -> best remaining budget it was expanded with
	states := map[uint64]struct{}{}
	unb := func(b int) int {
		if b < 0 {
			return 1 << 30
		}
		return b
	}
	maxPre, maxDev := unb(cfg.Preemptions), unb(cfg.Deviations)

	var rec func(prefix []int, depth int)
	rec = func(prefix []int, depth int) {
		if res.CapHit != "" || (cfg.StopAtFirst && len(res.Violations) > 0) || len(res.Violations) >= cfg.MaxViolations {
			return
		}
		if cfg.MaxExec > 0 && res.Executions >= cfg.MaxExec {
			res.CapHit = fmt.Sprintf("max executions %d", cfg.MaxExec)
			res.Exhaustive = false
			return
		}
		if !cfg.Deadline.IsZero() && res.Executions%64 == 0 && time.Now().After(cfg.Deadline) {
			res.CapHit = "deadline"
			res.Exhaustive = false
			return
		}
		// budget used by the prefix is recomputed from the recorded choice points.
		usedPre, usedDev := 0, 0
		var onChoice func(x *vsched.Exec, cp *vsched.ChoicePoint) bool
		if cfg.HBCache {
			onChoice = func(x *vsched.Exec, cp *vsched.ChoicePoint) bool {
				// budget used so far along this execution
				p, d := 0, 0
				for i := range x.Choices {
					a, b := cost(&x.Choices[i], x.Choices[i].Chosen)
					p += a
					d += b
				}
				rem := budget{maxPre - p, maxDev - d}
				states[cp.Key] = struct{}{}
				if old, ok := visited[cp.Key]; ok && old.pre >= rem.pre && old.dev >= rem.dev {
					return false
				}
				visited[cp.Key] = rem
				return true
			}
		}
		x, c := runOnce(&cfg, body, prefix, false, onChoice)
		res.Executions++
		res.Points += int64(x.Points)
		res.ChoicePoints += int64(len(x.Choices))
		if len(x.Choices) > res.MaxChoiceLen {
			res.MaxChoiceLen = len(x.Choices)
		}
		if x.Diverged != "" {
			res.Nondeterminism = fmt.Sprintf("prefix %v: %s", prefix, x.Diverged)
			res.Exhaustive = false
			res.CapHit = "nondeterminism"
			return
		}
		if !cfg.HBCache {
			for i := range x.Choices {
				states[x.Choices[i].Key] = struct{}{}
			}
		}
		if x.Pruned {
			res.Pruned++
		} else {
			res.Complete++
			if x.Conflicts > 0 {
				res.Conflicting++
			}
			owned := true
			if cfg.Shards > 1 && depth < 2 && cfg.Shard != 0 {
				owned = false // shallow nodes are executed by every shard but judged by shard 0
			}
			if owned {
				judge(res, &cfg, body, x, c)
			}
		}
		for i := range x.Choices {
			a, b := cost(&x.Choices[i], x.Choices[i].Chosen)
			if i < len(prefix) {
				usedPre += a
				usedDev += b
			}
		}
		// expand alternatives at points beyond the prefix
		p, d := 0, 0
		for i := 0; i < len(x.Choices); i++ {
			cp := &x.Choices[i]
			if i >= len(prefix) {
				for alt := 1; alt < cp.N; alt++ {
					a, b := cost(cp, alt)
					if p+a > maxPre || d+b > maxDev {
						continue
					}
					if cfg.ExtOnly && !cp.Env && cp.CurEnabled && !cp.ExtOnly {
						continue
					}
					child := make([]int, i+1)
					for j := 0; j < i; j++ {
						child[j] = x.Choices[j].Chosen
					}
					child[i] = alt
					if cfg.Shards > 1 && depth+1 == 2 {
						if int(hashPrefix(child)%uint64(cfg.Shards)) != cfg.Shard {
							continue
						}
					}
					rec(child, depth+1)
				}
			}
			a, b := cost(cp, cp.Chosen)
			p += a
			d += b
		}
	}
	rec(nil, 0)
	res.States = len(states)
	return res
}

func (c *Ctx) filter(f func(string) bool) {
	if f == nil {
		return
	}
	var fs, ss []string
	for i, s := range c.sigs {
		if f(s) {
			fs = append(fs, c.fails[i])
			ss = append(ss, s)
		}
	}
	c.fails, c.sigs, c.sig = fs, ss, ""
	if len(ss) > 0 {
		c.sig = ss[0]
	}
}

func judge(res *Result, cfg *Config, body Body, x *vsched.Exec, c *Ctx) {
	c.filter(cfg.SigFilter)
	out := c.outcome
	fail := ""
	sig := c.sig
	switch {
	case x.PanicVal != nil:
		fail = fmt.Sprintf("panic: %v\n%s", x.PanicVal, x.PanicStack)
		sig = "panic"
		out = "panic"
	case x.Deadlock != "":
		fail = "deadlock: " + x.Deadlock
		sig = "deadlock"
		out = "deadlock"
		res.Deadlocks++
	case x.Horizon:
		fail = "horizon: step cap reached (livelock?)"
		sig = "horizon"
		out = "horizon"
	case c.Failed():
		fail = c.fails[0]
		if len(c.fails) > 1 {
			fail += fmt.Sprintf(" (+%d more)", len(c.fails)-1)
		}
	}
	if out == "" {
		out = "ok"
	}
	res.Outcomes[out]++
	choices := make([]int, len(x.Choices))
	for i := range x.Choices {
		choices[i] = x.Choices[i].Chosen
	}
	if fail == "" {
		if len(res.SampleTraces) < 2 && len(choices) > 0 {
			x2, _ := runOnce(cfg, body, choices, true, nil)
			res.SampleTraces = append(res.SampleTraces, compactTrace(x2.Trace, 60))
		}
		return
	}
	// replay twice with traces on and require identical observations
	x2, c2 := runOnce(cfg, body, choices, true, nil)
	x3, c3 := runOnce(cfg, body, choices, true, nil)
	c2.filter(cfg.SigFilter)
	c3.filter(cfg.SigFilter)
	same := func(y *vsched.Exec, cy *Ctx) bool {
		if y.Diverged != "" {
			return false
		}
		if (y.PanicVal != nil) != (x.PanicVal != nil) || (y.Deadlock != "") != (x.Deadlock != "") || y.Horizon != x.Horizon {
			return false
		}
		if cy.Failed() != c.Failed() {
			return false
		}
		return true
	}
	if !same(x2, c2) || !same(x3, c3) {
		res.Nondeterminism = fmt.Sprintf("violation %q did not reproduce on replay of %v", fail, choices)
		res.Exhaustive = false
		return
	}
	res.Violations = append(res.Violations, Violation{Choices: choices, Msg: fail, Sig: sig, Trace: compactTrace(x2.Trace, 400)})
	// further, different failures of the same execution are reported as well
	seenSig := map[string]bool{sig: true}
	for i, s2 := range c.sigs {
		if !seenSig[s2] && x.PanicVal == nil && x.Deadlock == "" && !x.Horizon {
			seenSig[s2] = true
			res.Violations = append(res.Violations, Violation{Choices: choices, Msg: c.fails[i], Sig: s2, Trace: compactTrace(x2.Trace, 400)})
		}
	}
}

func compactTrace(t []string, max int) []string {
	if len(t) <= max {
		return t
	}
	out := append([]string{}, t[:max/2]...)
	out = append(out, fmt.Sprintf("... %d lines elided ...", len(t)-max))
	out = append(out, t[len(t)-max/2:]...)
	return out
}

// Replay runs one recorded choice list with tracing and returns the execution and context.
func Replay(cfg Config, body Body, choices []int) (*vsched.Exec, *Ctx, []string) {
	x, c := runOnce(&cfg, body, choices, true, nil)
	return x, c, c.fails
}

// SortedOutcomes renders the outcome histogram deterministically.
func (r *Result) SortedOutcomes() []string {
	var ks []string
	for k, v := range r.Outcomes {
		ks = append(ks, fmt.Sprintf("%s=%d", k, v))
	}
	sort.Strings(ks)
	return ks
}

// FreeRun executes body n times on real goroutines (shims in pass-through, doubles serialised by a
// real lock) for the separate -race pass; oracle failures are ignored, it only exists to let the race
// detector watch the implementation's own memory accesses.
func FreeRun(body Body, n int) (panics int) {
	vsched.SetFreeRun(true)
	defer vsched.SetFreeRun(false)
	for i := 0; i < n; i++ {
		vclock.Reset()
		vrand.Reset()
		func() {
			defer func() {
				if r := recover(); r != nil {
					panics++
				}
			}()
			body(&Ctx{})
		}()
	}
	return
}
