// Package vrand replaces crypto/rand in the instrumented packages with a logged,
// counter-based deterministic stream: every Read returns bytes never returned before in
// the same execution, so a repeated nonce can only come from code that did not draw one.
package vrand

import (
	"crypto/sha256"
	"encoding/binary"
	"io"
	"sync"
)

var (
	mu      sync.Mutex
	counter uint64
	draws   int
	failAt  = -1
)

// Reset restarts the stream.
func Reset() {
	mu.Lock()
	counter, draws, failAt = 0, 0, -1
	mu.Unlock()
}

// Draws returns the number of Read calls since Reset.
func Draws() int {
	mu.Lock()
	defer mu.Unlock()
	return draws
}

// FailAt makes the k-th (0-based) Read from now fail.
func FailAt(k int) {
	mu.Lock()
	failAt = draws + k
	mu.Unlock()
}

type errRand struct{}

func (errRand) Error() string { return "vrand: injected random source failure" }

// Read fills b with the next bytes of the stream.
func Read(b []byte) (int, error) {
	mu.Lock()
	defer mu.Unlock()
	if draws == failAt {
		draws++
		return 0, errRand{}
	}
	draws++
	off := 0
	for off < len(b) {
		var in [16]byte
		binary.LittleEndian.PutUint64(in[:8], counter)
		copy(in[8:], "vrand-st")
		counter++
		h := sha256.Sum256(in[:])
		off += copy(b[off:], h[:])
	}
	return len(b), nil
}

type reader struct{}

func (reader) Read(b []byte) (int, error) { return Read(b) }

// Reader mirrors crypto/rand.Reader.
var Reader io.Reader = reader{}
