package vsched

// Chan replaces `chan T` in the instrumented packages. In pass-through mode it wraps a
// real channel; under a controlled execution it is a logical queue with rendezvous
// semantics for capacity 0.
type Chan[T any] struct {
	real   chan T
	capn   int
	obj    Obj
	buf    []T
	closed bool
	// unbuffered rendezvous: a parked receiver count and a hand-over slot
	recvWaiting int
	slot        []T // items handed to parked receivers (rendezvous completed by sender)
}

// NewChan is make(chan T, n).
func NewChan[T any](n ...int) *Chan[T] {
	c := 0
	if len(n) > 0 {
		c = n[0]
	}
	return &Chan[T]{real: make(chan T, c), capn: c}
}

func (c *Chan[T]) enter() {
	if c.obj.Enter() {
		c.buf = nil
		c.closed = false
		c.recvWaiting = 0
		c.slot = nil
	}
}

// Send is `c <- v`.
func (c *Chan[T]) Send(v T) {
	x := Cur()
	if x == nil {
		if c == nil {
			select {}
		}
		c.real <- v
		return
	}
	if c == nil {
		x.Point(&Op{Kind: "Chan.Send(nil)", Enabled: func() bool { return false }})
		return
	}
	c.enter()
	x.Point(&Op{Kind: "Chan.Send", Obj: &c.obj, Enabled: func() bool {
		if c.closed {
			return true // will panic
		}
		if c.capn == 0 {
			return c.recvWaiting > len(c.slot)
		}
		return len(c.buf) < c.capn
	}})
	if c.closed {
		panic("send on closed channel")
	}
	if c.capn == 0 {
		c.slot = append(c.slot, v)
		return
	}
	c.buf = append(c.buf, v)
}

// Recv2 is `v, ok := <-c`.
func (c *Chan[T]) Recv2() (T, bool) {
	x := Cur()
	if x == nil {
		if c == nil {
			select {}
		}
		v, ok := <-c.real
		return v, ok
	}
	var zero T
	if c == nil {
		x.Point(&Op{Kind: "Chan.Recv(nil)", Enabled: func() bool { return false }})
		return zero, false
	}
	c.enter()
	if c.capn == 0 {
		// announce ourselves so that a sender becomes enabled, then wait for the hand-over
		c.recvWaiting++
		x.Point(&Op{Kind: "Chan.Recv", Obj: &c.obj, Enabled: func() bool { return len(c.slot) > 0 || c.closed }})
		c.recvWaiting--
		if len(c.slot) > 0 {
			v := c.slot[0]
			c.slot = c.slot[1:]
			return v, true
		}
		return zero, false
	}
	x.Point(&Op{Kind: "Chan.Recv", Obj: &c.obj, Enabled: func() bool { return len(c.buf) > 0 || c.closed }})
	if len(c.buf) > 0 {
		v := c.buf[0]
		c.buf = c.buf[1:]
		return v, true
	}
	return zero, false
}

// Recv is `<-c`.
func (c *Chan[T]) Recv() T {
	v, _ := c.Recv2()
	return v
}

// Close is close(c).
func (c *Chan[T]) Close() {
	x := Cur()
	if x == nil {
		close(c.real)
		return
	}
	if c == nil {
		panic("close of nil channel")
	}
	c.enter()
	x.Point(&Op{Kind: "Chan.Close", Obj: &c.obj})
	if c.closed {
		panic("close of closed channel")
	}
	c.closed = true
}

// Len and Cap mirror len(c), cap(c).
func (c *Chan[T]) Len() int {
	if Cur() == nil {
		return len(c.real)
	}
	if c == nil {
		return 0
	}
	return len(c.buf)
}

func (c *Chan[T]) Cap() int {
	if c == nil {
		return 0
	}
	return c.capn
}
