// Package vsched is a cooperative, controlled scheduler for goroutines of the
// instrumented asherah packages. Exactly one logical thread runs at a time; every
// synchronisation operation of the shims (vsync, vatomic, Chan) and every external
// call of the doubles is a scheduling point at which an Explorer decides who runs next.
//
// Two modes:
//   - pass-through (no execution in progress): every shim delegates to the real
//     primitive, Go is a plain `go`.
//   - active: logical primitive state, one real goroutine per logical thread,
//     baton passed through per-thread wake channels.
package vsched

import (
	"fmt"
	"runtime"
	"sort"
	"strings"
	"sync"
	"sync/atomic"
	"time"
)

// Op describes the operation a thread is about to perform.
type Op struct {
	Kind    string
	Obj     *Obj        // object identity (may be nil for pure yields)
	Enabled func() bool // nil = always enabled
	Ext     bool        // external call (metastore/KMS) - used by "external-only" preemption placement
}

// Obj is the per-object scheduling identity embedded in every shim object.
type Obj struct {
	epoch  uint64
	sepoch uint64 // epoch for which the owner's logical state is valid
	hash  uint64 // HB hash of the last operation on the object
	name  uint64 // stable identity: hash(first toucher path, its object counter)
}

// Enter reports whether this is the first use of the object in the running execution
// (the owner must then reset its logical state).
func (o *Obj) Enter() bool {
	x := Cur()
	if x == nil {
		return false
	}
	if o.sepoch != x.epoch {
		o.sepoch = x.epoch
		return true
	}
	return false
}

type Thread struct {
	ID      int
	Name    string
	path    uint64 // stable identity independent of interleaving
	wake    chan struct{}
	exited  chan struct{}
	pending *Op
	done    bool
	daemon  bool
	hash    uint64 // HB hash of the causal past of this thread
	nobj    uint64 // objects first touched by this thread
	nspawn  uint64
	steps   int
	where   string
}

// ChoicePoint is one recorded decision.
type ChoicePoint struct {
	N          int    // number of alternatives
	Chosen     int    // alternative taken
	Env        bool   // environment choice (vs scheduling)
	CurEnabled bool   // scheduling: running thread was still enabled (alt != 0 is a preemption)
	Label      string // decoded description
	Alts       []string
	Key        uint64 // HB state key at this point (for pruning)
	ExtOnly    bool   // scheduling point was at an external call
}

type abortSignal struct{}

// Exec is one controlled execution.
type Exec struct {
	epoch    uint64
	threads  []*Thread
	cur      *Thread
	prefix   []int
	Choices  []ChoicePoint
	Trace    []string
	KeepTrace bool
	quiet    int // >0: setup phase, default choices, nothing recorded
	aborting  bool
	finishing bool
	abortWhy  string
	finished chan struct{}
	steps    int
	maxSteps int
	Deadlock string
	Horizon  bool
	Diverged string
	Pruned   bool
	envHash  uint64
	epoch2   uint64 // hash of the global events (clock changes) so far: mixed into every later operation
	// callbacks
	onChoice func(x *Exec, cp *ChoicePoint) bool // return false to prune (abort) the execution
	addrObjs map[uintptr]*Obj
	PanicVal interface{}
	PanicStack string
	// statistics
	Points    int
	Conflicts int // ops on an object last touched by a different thread
	lastTouch map[*Obj]int
	userData  interface{}
}

var (
	active  atomic.Bool
	current *Exec
	epochs  uint64
)

// Active reports whether a controlled execution is in progress.
func Active() bool { return active.Load() }

// Cur returns the running execution (nil in pass-through mode).
func Cur() *Exec {
	if !active.Load() {
		return nil
	}
	return current
}

func mix(a, b uint64) uint64 {
	h := a ^ (b + 0x9e3779b97f4a7c15 + (a << 6) + (a >> 2))
	h ^= h >> 33
	h *= 0xff51afd7ed558ccd
	h ^= h >> 33
	h *= 0xc4ceb9fe1a85ec53
	h ^= h >> 33
	return h
}

func strHash(s string) uint64 {
	var h uint64 = 14695981039346656037
	for i := 0; i < len(s); i++ {
		h ^= uint64(s[i])
		h *= 1099511628211
	}
	return h
}

// RunOptions configures one execution.
type RunOptions struct {
	Prefix    []int
	MaxSteps  int
	KeepTrace bool
	OnChoice  func(x *Exec, cp *ChoicePoint) bool
	UserData  interface{}
}

// Run executes body as logical thread 0 under the controlled scheduler and returns
// when thread 0 has returned (remaining threads are aborted) or the execution was
// aborted (deadlock, horizon, prune, divergence).
func Run(opt RunOptions, body func()) *Exec {
	if active.Load() {
		panic("vsched: nested Run")
	}
	epochs++
	x := &Exec{
		epoch:     epochs,
		prefix:    opt.Prefix,
		finished:  make(chan struct{}),
		maxSteps:  opt.MaxSteps,
		KeepTrace: opt.KeepTrace,
		onChoice:  opt.OnChoice,
		addrObjs:  map[uintptr]*Obj{},
		lastTouch: map[*Obj]int{},
		userData:  opt.UserData,
	}
	if x.maxSteps == 0 {
		x.maxSteps = 200000
	}
	current = x
	t0 := &Thread{ID: 0, Name: "main", path: 1, wake: make(chan struct{}, 1), exited: make(chan struct{}), hash: 1}
	x.threads = append(x.threads, t0)
	x.cur = t0
	active.Store(true)
	go x.threadMain(t0, body, true)
	<-x.finished
	active.Store(false)
	current = nil
	return x
}

// UserData returns the value passed in RunOptions.
func (x *Exec) UserData() interface{} { return x.userData }

func (x *Exec) threadMain(t *Thread, fn func(), isMain bool) {
	defer func() {
		r := recover()
		if r != nil {
			if _, ok := r.(abortSignal); !ok {
				// a real panic in the code under test: record it, abort the execution
				if x.PanicVal == nil {
					x.PanicVal = r
					buf := make([]byte, 16384)
					n := runtime.Stack(buf, false)
					x.PanicStack = string(buf[:n])
				}
				x.aborting = true
				x.abortWhy = "panic"
			}
		}
		t.done = true
		t.pending = nil
		if isMain || x.aborting {
			if !x.finishing {
				x.finishing = true
				x.finish(t)
			}
			close(t.exited)
			return
		}
		x.handoffFromDone()
		close(t.exited)
	}()
	if !isMain {
		<-t.wake
		if x.aborting {
			return
		}
	}
	fn()
}

// finish ends the execution: every parked thread is woken in abort mode and unwinds.
func (x *Exec) finish(self *Thread) {
	if !x.aborting {
		x.aborting = true
		x.abortWhy = "end"
	}
	// wake the parked threads one at a time so that their goroutines unwind; every
	// shim operation panics with the abort signal while aborting, so they never
	// touch shared state again.
	for i := 0; i < len(x.threads); i++ {
		t := x.threads[i]
		if t == self {
			continue
		}
		select {
		case <-t.exited:
			continue
		default:
		}
		select {
		case t.wake <- struct{}{}:
		default:
		}
		<-t.exited
	}
	close(x.finished)
}

// Aborting is true once the execution is being torn down; shims then do nothing.
func (x *Exec) Aborting() bool { return x.aborting }

func (x *Exec) enabledThreads() []*Thread {
	var en []*Thread
	if x.cur != nil && !x.cur.done && opEnabled(x.cur) {
		en = append(en, x.cur)
	}
	for _, t := range x.threads {
		if t == x.cur || t.done {
			continue
		}
		if opEnabled(t) {
			en = append(en, t)
		}
	}
	return en
}

func opEnabled(t *Thread) bool {
	if t.pending == nil {
		return true // newly spawned, not yet started
	}
	if t.pending.Kind == "quiesce" {
		return false // handled separately
	}
	if t.pending.Enabled == nil {
		return true
	}
	return t.pending.Enabled()
}

func (x *Exec) describe(t *Thread) string {
	if t.pending == nil {
		return fmt.Sprintf("T%d:start", t.ID)
	}
	return fmt.Sprintf("T%d:%s", t.ID, t.pending.Kind)
}

// abortNow unwinds the calling thread.
func (x *Exec) abortNow(why string) {
	if !x.aborting {
		x.aborting = true
		x.abortWhy = why
	}
	panic(abortSignal{})
}

// Point is called by the running thread before it performs op.
func (x *Exec) Point(op *Op) {
	if x.aborting {
		// teardown: every shim operation unwinds its thread.
		panic(abortSignal{})
	}
	t := x.cur
	t.pending = op
	x.steps++
	t.steps++
	x.Points++
	if x.steps > x.maxSteps {
		x.Horizon = true
		x.abortNow("horizon")
	}
	next := x.pick(t)
	if next != t {
		x.cur = next
		next.wake <- struct{}{}
		<-t.wake
		if x.aborting {
			panic(abortSignal{})
		}
	}
	// perform: update HB hashes
	x.noteOp(t, op)
	t.pending = nil
}

func (x *Exec) noteOp(t *Thread, op *Op) {
	if op.Obj != nil {
		o := op.Obj
		if o.epoch != x.epoch {
			o.epoch = x.epoch
			o.hash = 0
			t.nobj++
			o.name = mix(t.path, t.nobj)
		}
		if lt, ok := x.lastTouch[o]; ok && lt != t.ID {
			x.Conflicts++
		}
		x.lastTouch[o] = t.ID
		h := mix(mix(t.hash, o.hash^o.name), strHash(op.Kind)^x.epoch2)
		t.hash = h
		o.hash = h
	} else {
		t.hash = mix(t.hash, strHash(op.Kind)^x.epoch2)
	}
	if x.KeepTrace && x.quiet == 0 {
		x.Trace = append(x.Trace, fmt.Sprintf("T%d %s%s", t.ID, op.Kind, t.whereStr()))
	}
}

func (t *Thread) whereStr() string {
	if t.where == "" {
		return ""
	}
	return " @" + t.where
}

// pick chooses the next thread to run. t is the thread at a point (may be disabled).
func (x *Exec) pick(t *Thread) *Thread {
	for {
		en := x.enabledThreads()
		if len(en) == 0 {
			// maybe a quiescing thread can continue
			var q *Thread
			for _, th := range x.threads {
				if !th.done && th.pending != nil && th.pending.Kind == "quiesce" {
					q = th
					break
				}
			}
			if q != nil {
				return q
			}
			x.Deadlock = x.waitPicture()
			x.abortNow("deadlock")
		}
		if len(en) == 1 {
			return en[0]
		}
		curEnabled := en[0] == t && !t.done
		if x.quiet > 0 {
			return en[0]
		}
		cp := ChoicePoint{N: len(en), CurEnabled: curEnabled, ExtOnly: t.pending != nil && t.pending.Ext}
		idx := x.decide(&cp, func() []string {
			alts := make([]string, len(en))
			for i, th := range en {
				alts[i] = x.describe(th)
			}
			return alts
		})
		return en[idx]
	}
}

func (x *Exec) stateKey() uint64 {
	type kv struct{ p, h uint64 }
	ks := make([]kv, 0, len(x.threads))
	for _, t := range x.threads {
		h := t.hash
		if t.done {
			h = mix(h, 0xdead)
		}
		ks = append(ks, kv{t.path, h})
	}
	sort.Slice(ks, func(i, j int) bool { return ks[i].p < ks[j].p })
	var k uint64 = x.envHash
	for _, e := range ks {
		k = mix(k, mix(e.p, e.h))
	}
	if x.cur != nil {
		k = mix(k, x.cur.path)
	}
	return k
}

func (x *Exec) decide(cp *ChoicePoint, alts func() []string) int {
	i := len(x.Choices)
	if x.KeepTrace {
		cp.Alts = alts()
	}
	cp.Key = x.stateKey()
	if i < len(x.prefix) {
		c := x.prefix[i]
		if c < 0 || c >= cp.N {
			x.Diverged = fmt.Sprintf("choice %d: prefix wants alternative %d of %d (%v)", i, c, cp.N, alts())
			x.abortNow("diverged")
		}
		cp.Chosen = c
	} else {
		cp.Chosen = 0
		if x.onChoice != nil && !x.onChoice(x, cp) {
			x.Pruned = true
			x.abortNow("pruned")
		}
	}
	x.Choices = append(x.Choices, *cp)
	if x.KeepTrace {
		x.Trace = append(x.Trace, fmt.Sprintf("-- choice #%d: %d of %v", i, cp.Chosen, cp.Alts))
	}
	return cp.Chosen
}

func (x *Exec) handoffFromDone() {
	// called by a finished (non-main) thread: pass the baton on.
	if x.aborting {
		return
	}
	t := x.cur
	defer func() {
		if r := recover(); r != nil {
			if _, ok := r.(abortSignal); ok {
				if !x.finishing {
					x.finishing = true
					x.finish(t)
				}
				return
			}
			panic(r)
		}
	}()
	next := x.pick(t)
	x.cur = next
	next.wake <- struct{}{}
}

func (x *Exec) waitPicture() string {
	var sb strings.Builder
	for _, t := range x.threads {
		if t.done {
			continue
		}
		fmt.Fprintf(&sb, "%s%s; ", x.describe(t), t.whereStr())
	}
	return sb.String()
}

// ---- public API used by shims, doubles and harnesses ----

// Point is the package-level entry: no-op in pass-through mode.
func Point(op *Op) {
	if x := Cur(); x != nil {
		x.Point(op)
	}
}

// Yield is a pure scheduling point (external call).
func Yield(kind string) {
	if x := Cur(); x != nil {
		x.Point(&Op{Kind: kind, Ext: true})
	}
}

// Go starts fn as a new logical thread (plain goroutine in pass-through mode).
func Go(fn func()) {
	x := Cur()
	if x == nil {
		go fn()
		return
	}
	if x.aborting {
		return
	}
	GoNamed("", fn)
}

// GoNamed is Go with a thread name for traces.
func GoNamed(name string, fn func()) *Thread {
	x := Cur()
	if x == nil {
		if freeRun.Load() {
			freeWG.Add(1)
			go func() {
				defer freeWG.Done()
				fn()
			}()
			return nil
		}
		go fn()
		return nil
	}
	p := x.cur
	p.nspawn++
	t := &Thread{ID: len(x.threads), Name: name, wake: make(chan struct{}, 1), exited: make(chan struct{})}
	t.path = mix(p.path, p.nspawn+0x1000)
	t.hash = mix(p.hash, t.path)
	x.threads = append(x.threads, t)
	go x.threadMain(t, fn, false)
	// spawning is itself a scheduling point: the child may run first.
	x.Point(&Op{Kind: "go"})
	return t
}

// Choose is an environment choice point with n alternatives; 0 is the default answer.
func Choose(n int, label string) int {
	x := Cur()
	if x == nil || n <= 1 || x.aborting {
		return 0
	}
	if x.quiet > 0 {
		return 0
	}
	cp := ChoicePoint{N: n, Env: true, Label: label}
	c := x.decide(&cp, func() []string {
		alts := make([]string, n)
		for i := range alts {
			alts[i] = fmt.Sprintf("%s=%d", label, i)
		}
		return alts
	})
	x.envHash = mix(x.envHash, mix(strHash(label), uint64(c)+1))
	x.cur.hash = mix(x.cur.hash, mix(strHash(label), uint64(c)+1))
	return c
}

// Quiesce blocks the caller until no other thread is enabled (all others finished or blocked).
func Quiesce() {
	x := Cur()
	if x == nil && freeRun.Load() {
		// wait for the harness threads, then give SDK-internal goroutines (event loops, Remove) a moment
		freeWG.Wait()
		time.Sleep(2 * time.Millisecond)
		return
	}
	if x == nil || x.aborting {
		return
	}
	x.Point(&Op{Kind: "quiesce"})
}

// BeginQuiet / EndQuiet bracket a set-up phase: default schedule, nothing recorded.
func BeginQuiet() {
	if x := Cur(); x != nil {
		x.quiet++
	}
}

func EndQuiet() {
	if x := Cur(); x != nil {
		Quiesce()
		x.quiet--
	}
}

// Blocked lists the threads that are neither finished nor the caller.
func Blocked() []string {
	x := Cur()
	if x == nil {
		return nil
	}
	var out []string
	for _, t := range x.threads {
		if t.done || t == x.cur {
			continue
		}
		out = append(out, x.describe(t)+t.whereStr())
	}
	return out
}

// SetWhere annotates the current thread (used in traces / deadlock pictures).
func SetWhere(s string) {
	if x := Cur(); x != nil && x.cur != nil {
		x.cur.where = s
	}
}

// CurThread returns the id of the running logical thread (-1 in pass-through mode).
func CurThread() int {
	x := Cur()
	if x == nil {
		return -1
	}
	return x.cur.ID
}

// AddrObj returns the scheduling identity for an address (atomics on plain words).
func AddrObj(p uintptr) *Obj {
	x := Cur()
	if x == nil {
		return nil
	}
	o := x.addrObjs[p]
	if o == nil {
		o = &Obj{}
		x.addrObjs[p] = o
	}
	return o
}

// Note appends a line to the trace (harness events).
func Note(format string, args ...interface{}) {
	if x := Cur(); x != nil && x.KeepTrace && x.quiet == 0 {
		x.Trace = append(x.Trace, fmt.Sprintf("T%d ", x.cur.ID)+fmt.Sprintf(format, args...))
	}
}

// IsAbort reports whether a recovered value is the scheduler's unwind signal; code
// that recovers panics around operations under test must re-panic it.
func IsAbort(r interface{}) bool {
	_, ok := r.(abortSignal)
	return ok
}

// Steps returns the number of scheduling points executed so far.
func (x *Exec) Steps() int { return x.steps }

// AbortWhy tells why the execution ended ("end", "deadlock", "horizon", "pruned", "diverged", "panic").
func (x *Exec) AbortWhy() string { return x.abortWhy }

// FinalizersEnabled lets runtime.SetFinalizer calls of the instrumented packages through.
// It is off in checker processes: a GC-driven finalizer would start goroutines outside
// the controlled scheduler.
var FinalizersEnabled = false

// SetFinalizer replaces runtime.SetFinalizer in the instrumented packages.
func SetFinalizer(obj interface{}, finalizer interface{}) {
	if FinalizersEnabled {
		runtime.SetFinalizer(obj, finalizer)
	}
}

// ---------------------------------------------------------------------------------
// Free-running mode: the same harness bodies run on real goroutines with the real
// sync primitives (shims in pass-through), for the separate `go build -race` pass that
// validates the explorer's assumption that instrumented operations are the only
// inter-thread communication. No exploration, no oracles.
// ---------------------------------------------------------------------------------

var (
	freeRun   atomic.Bool
	freeWG    sync.WaitGroup
	// FreeMu serialises the (deliberately not thread-safe) doubles in free-running mode.
	FreeMu sync.Mutex
)

// SetFreeRun switches free-running mode on or off.
func SetFreeRun(on bool) { freeRun.Store(on) }

// FreeRunning reports whether free-running mode is on.
func FreeRunning() bool { return freeRun.Load() }

// LockDoubles is called by every double operation: under the explorer it does nothing,
// in free-running mode it takes the global doubles lock. Usage: defer vsched.LockDoubles()().
func LockDoubles() func() {
	if !freeRun.Load() || Active() {
		return func() {}
	}
	FreeMu.Lock()
	return FreeMu.Unlock
}

// GlobalEvent records a change of state that every thread can read without a scheduling point of its
// own (the virtual clock). Operations performed after it hash differently from the same operations
// performed before it, so the happens-before state key distinguishes "read the clock before the tick"
// from "after the tick".
func GlobalEvent(label string) {
	if x := Cur(); x != nil {
		x.epoch2 = mix(x.epoch2+1, strHash(label))
		x.envHash = mix(x.envHash, x.epoch2)
	}
}
