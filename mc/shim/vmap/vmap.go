// Package vmap gives `for k := range m` a deterministic order in the instrumented packages.
package vmap

import (
	"fmt"
	"reflect"
	"sort"
)

// Order, when set, chooses the iteration order: it receives the number of keys and returns a permutation of
// 0..n-1 that is applied to the naturally ordered keys. Go leaves map iteration order unspecified, so code under test
// must work for every order; a harness enumerates them through this hook (nil = natural order).
var Order func(n int) []int

// Keys returns the keys of m in a deterministic order (natural order for strings and
// integers, formatted order otherwise).
func Keys[M ~map[K]V, K comparable, V any](m M) []K {
	ks := make([]K, 0, len(m))
	for k := range m {
		ks = append(ks, k)
	}
	if len(ks) < 2 {
		return ks
	}
	switch reflect.TypeOf(ks[0]).Kind() {
	case reflect.String:
		sort.Slice(ks, func(i, j int) bool { return reflect.ValueOf(ks[i]).String() < reflect.ValueOf(ks[j]).String() })
	case reflect.Int, reflect.Int8, reflect.Int16, reflect.Int32, reflect.Int64:
		sort.Slice(ks, func(i, j int) bool { return reflect.ValueOf(ks[i]).Int() < reflect.ValueOf(ks[j]).Int() })
	case reflect.Uint, reflect.Uint8, reflect.Uint16, reflect.Uint32, reflect.Uint64, reflect.Uintptr:
		sort.Slice(ks, func(i, j int) bool { return reflect.ValueOf(ks[i]).Uint() < reflect.ValueOf(ks[j]).Uint() })
	default:
		sort.Slice(ks, func(i, j int) bool { return fmt.Sprint(ks[i]) < fmt.Sprint(ks[j]) })
	}
	if Order != nil {
		if p := Order(len(ks)); len(p) == len(ks) {
			out := make([]K, len(ks))
			for i, j := range p {
				out[i] = ks[j]
			}
			return out
		}
	}
	return ks
}
