// Package vclock is the virtual wall clock of the instrumented packages: time.Now in
// rewritten code reads it, and only harnesses advance it.
package vclock

import (
	"sync/atomic"
	"time"
)

// T0 is the start of virtual time: a round instant plus 30 s, so that T0 mod 60 s = 30 s.
const T0 = int64(1_700_000_040 + 30)

var nowNs atomic.Int64

func init() { Reset() }

// Reset sets the clock back to T0.
func Reset() { nowNs.Store(T0 * int64(time.Second)) }

// Set sets the clock to an absolute unix time in seconds.
func Set(sec int64) { nowNs.Store(sec * int64(time.Second)) }

// Now returns the virtual time (wall clock only, no monotonic reading).
func Now() time.Time { return time.Unix(0, nowNs.Load()).UTC() }

// Unix returns the virtual time in seconds.
func Unix() int64 { return nowNs.Load() / int64(time.Second) }

// Advance moves the clock forward.
func Advance(d time.Duration) { nowNs.Add(int64(d)) }

// Since and Until mirror package time.
func Since(t time.Time) time.Duration { return Now().Sub(t) }
func Until(t time.Time) time.Duration { return t.Sub(Now()) }
