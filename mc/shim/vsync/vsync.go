// Package vsync mirrors the subset of package sync used by asherah. In pass-through
// mode every type delegates to the real primitive; under a controlled execution the
// state is logical and every operation is a scheduling point.
package vsync

import (
	"sync"

	"asherahverif/shim/vsched"
)

// Locker is sync.Locker.
type Locker = sync.Locker

// ---------------------------------------------------------------- Mutex

type Mutex struct {
	real sync.Mutex
	obj  vsched.Obj
	held bool
}

func (m *Mutex) enter() {
	if m.obj.Enter() {
		m.held = false
	}
}

func (m *Mutex) Lock() {
	x := vsched.Cur()
	if x == nil {
		m.real.Lock()
		return
	}
	m.enter()
	x.Point(&vsched.Op{Kind: "Mutex.Lock", Obj: &m.obj, Enabled: func() bool { return !m.held }})
	m.held = true
}

func (m *Mutex) TryLock() bool {
	x := vsched.Cur()
	if x == nil {
		return m.real.TryLock()
	}
	m.enter()
	x.Point(&vsched.Op{Kind: "Mutex.TryLock", Obj: &m.obj})
	if m.held {
		return false
	}
	m.held = true
	return true
}

func (m *Mutex) Unlock() {
	x := vsched.Cur()
	if x == nil {
		m.real.Unlock()
		return
	}
	m.enter()
	x.Point(&vsched.Op{Kind: "Mutex.Unlock", Obj: &m.obj})
	if !m.held {
		panic("sync: unlock of unlocked mutex")
	}
	m.held = false
}

// ---------------------------------------------------------------- RWMutex

type RWMutex struct {
	real    sync.RWMutex
	obj     vsched.Obj
	writer  bool
	readers int
}

func (m *RWMutex) enter() {
	if m.obj.Enter() {
		m.writer = false
		m.readers = 0
	}
}

func (m *RWMutex) Lock() {
	x := vsched.Cur()
	if x == nil {
		m.real.Lock()
		return
	}
	m.enter()
	x.Point(&vsched.Op{Kind: "RWMutex.Lock", Obj: &m.obj, Enabled: func() bool { return !m.writer && m.readers == 0 }})
	m.writer = true
}

func (m *RWMutex) Unlock() {
	x := vsched.Cur()
	if x == nil {
		m.real.Unlock()
		return
	}
	m.enter()
	x.Point(&vsched.Op{Kind: "RWMutex.Unlock", Obj: &m.obj})
	if !m.writer {
		panic("sync: Unlock of unlocked RWMutex")
	}
	m.writer = false
}

func (m *RWMutex) RLock() {
	x := vsched.Cur()
	if x == nil {
		m.real.RLock()
		return
	}
	m.enter()
	x.Point(&vsched.Op{Kind: "RWMutex.RLock", Obj: &m.obj, Enabled: func() bool { return !m.writer }})
	m.readers++
}

func (m *RWMutex) RUnlock() {
	x := vsched.Cur()
	if x == nil {
		m.real.RUnlock()
		return
	}
	m.enter()
	x.Point(&vsched.Op{Kind: "RWMutex.RUnlock", Obj: &m.obj})
	if m.readers <= 0 {
		panic("sync: RUnlock of unlocked RWMutex")
	}
	m.readers--
}

func (m *RWMutex) TryLock() bool {
	x := vsched.Cur()
	if x == nil {
		return m.real.TryLock()
	}
	m.enter()
	x.Point(&vsched.Op{Kind: "RWMutex.TryLock", Obj: &m.obj})
	if m.writer || m.readers > 0 {
		return false
	}
	m.writer = true
	return true
}

func (m *RWMutex) TryRLock() bool {
	x := vsched.Cur()
	if x == nil {
		return m.real.TryRLock()
	}
	m.enter()
	x.Point(&vsched.Op{Kind: "RWMutex.TryRLock", Obj: &m.obj})
	if m.writer {
		return false
	}
	m.readers++
	return true
}

type rlocker RWMutex

func (r *rlocker) Lock()   { (*RWMutex)(r).RLock() }
func (r *rlocker) Unlock() { (*RWMutex)(r).RUnlock() }

// RLocker returns a Locker that calls RLock/RUnlock.
func (m *RWMutex) RLocker() Locker { return (*rlocker)(m) }

// ---------------------------------------------------------------- Cond

type condWaiter struct {
	signalled bool
}

type Cond struct {
	L       Locker
	real    *sync.Cond
	obj     vsched.Obj
	waiters []*condWaiter
}

func NewCond(l Locker) *Cond {
	return &Cond{L: l, real: sync.NewCond(l)}
}

func (c *Cond) enter() {
	if c.obj.Enter() {
		c.waiters = nil
	}
}

func (c *Cond) Wait() {
	x := vsched.Cur()
	if x == nil {
		if c.real == nil {
			c.real = sync.NewCond(c.L)
		}
		c.real.Wait()
		return
	}
	c.enter()
	// like the runtime: join the notify list first, then unlock, then park.
	w := &condWaiter{}
	c.waiters = append(c.waiters, w)
	c.L.Unlock()
	x.Point(&vsched.Op{Kind: "Cond.Wait", Obj: &c.obj, Enabled: func() bool { return w.signalled }})
	c.L.Lock()
}

func (c *Cond) Broadcast() {
	x := vsched.Cur()
	if x == nil {
		if c.real == nil {
			c.real = sync.NewCond(c.L)
		}
		c.real.Broadcast()
		return
	}
	c.enter()
	x.Point(&vsched.Op{Kind: "Cond.Broadcast", Obj: &c.obj})
	for _, w := range c.waiters {
		w.signalled = true
	}
	c.waiters = nil
}

func (c *Cond) Signal() {
	x := vsched.Cur()
	if x == nil {
		if c.real == nil {
			c.real = sync.NewCond(c.L)
		}
		c.real.Signal()
		return
	}
	c.enter()
	x.Point(&vsched.Op{Kind: "Cond.Signal", Obj: &c.obj})
	if len(c.waiters) == 0 {
		return
	}
	i := vsched.Choose(len(c.waiters), "cond.signal")
	c.waiters[i].signalled = true
	c.waiters = append(c.waiters[:i:i], c.waiters[i+1:]...)
}

// ---------------------------------------------------------------- WaitGroup

type WaitGroup struct {
	real sync.WaitGroup
	obj  vsched.Obj
	n    int
}

func (wg *WaitGroup) enter() {
	if wg.obj.Enter() {
		wg.n = 0
	}
}

func (wg *WaitGroup) Add(delta int) {
	x := vsched.Cur()
	if x == nil {
		wg.real.Add(delta)
		return
	}
	wg.enter()
	x.Point(&vsched.Op{Kind: "WaitGroup.Add", Obj: &wg.obj})
	wg.n += delta
	if wg.n < 0 {
		panic("sync: negative WaitGroup counter")
	}
}

func (wg *WaitGroup) Done() { wg.Add(-1) }

func (wg *WaitGroup) Wait() {
	x := vsched.Cur()
	if x == nil {
		wg.real.Wait()
		return
	}
	wg.enter()
	x.Point(&vsched.Op{Kind: "WaitGroup.Wait", Obj: &wg.obj, Enabled: func() bool { return wg.n == 0 }})
}

// ---------------------------------------------------------------- Once

type Once struct {
	real    sync.Once
	obj     vsched.Obj
	Done_   bool // exported for the state walker
	running bool
}

func (o *Once) enter() {
	if o.obj.Enter() {
		o.Done_ = false
		o.running = false
	}
}

func (o *Once) Do(f func()) {
	x := vsched.Cur()
	if x == nil {
		o.real.Do(f)
		return
	}
	o.enter()
	x.Point(&vsched.Op{Kind: "Once.Do", Obj: &o.obj, Enabled: func() bool { return !o.running }})
	if o.Done_ {
		return
	}
	o.running = true
	defer func() {
		o.Done_ = true
		o.running = false
	}()
	f()
}


// Pool mirrors sync.Pool with deterministic behaviour: a LIFO free list that never drops items on its own (the real pool
// may; code must work either way, and keeping everything makes reuse - the interesting case - certain).
type Pool struct {
	New   func() any
	mu    sync.Mutex
	items []any
}

func (p *Pool) Get() any {
	p.mu.Lock()
	defer p.mu.Unlock()
	if n := len(p.items); n > 0 {
		x := p.items[n-1]
		p.items = p.items[:n-1]
		return x
	}
	if p.New != nil {
		return p.New()
	}
	return nil
}

func (p *Pool) Put(x any) {
	if x == nil {
		return
	}
	p.mu.Lock()
	p.items = append(p.items, x)
	p.mu.Unlock()
}
