// Package vatomic mirrors the subset of sync/atomic used by asherah; every operation
// is a scheduling point followed by the real atomic operation.
package vatomic

import (
	"sync/atomic"
	"unsafe"

	"asherahverif/shim/vsched"
)

func pt(kind string, o *vsched.Obj) {
	if x := vsched.Cur(); x != nil {
		x.Point(&vsched.Op{Kind: kind, Obj: o})
	}
}

func addr(kind string, p unsafe.Pointer) {
	if x := vsched.Cur(); x != nil {
		x.Point(&vsched.Op{Kind: kind, Obj: vsched.AddrObj(uintptr(p))})
	}
}

type Int64 struct {
	v   atomic.Int64
	obj vsched.Obj
}

func (a *Int64) Load() int64           { pt("Int64.Load", &a.obj); return a.v.Load() }
func (a *Int64) Store(v int64)         { pt("Int64.Store", &a.obj); a.v.Store(v) }
func (a *Int64) Add(d int64) int64     { pt("Int64.Add", &a.obj); return a.v.Add(d) }
func (a *Int64) Swap(v int64) int64    { pt("Int64.Swap", &a.obj); return a.v.Swap(v) }
func (a *Int64) CompareAndSwap(o, n int64) bool {
	pt("Int64.CAS", &a.obj)
	return a.v.CompareAndSwap(o, n)
}

// Peek reads the value without a scheduling point (state walker / oracles only).
func (a *Int64) Peek() int64 { return a.v.Load() }

type Int32 struct {
	v   atomic.Int32
	obj vsched.Obj
}

func (a *Int32) Load() int32        { pt("Int32.Load", &a.obj); return a.v.Load() }
func (a *Int32) Store(v int32)      { pt("Int32.Store", &a.obj); a.v.Store(v) }
func (a *Int32) Add(d int32) int32  { pt("Int32.Add", &a.obj); return a.v.Add(d) }
func (a *Int32) Swap(v int32) int32 { pt("Int32.Swap", &a.obj); return a.v.Swap(v) }
func (a *Int32) CompareAndSwap(o, n int32) bool {
	pt("Int32.CAS", &a.obj)
	return a.v.CompareAndSwap(o, n)
}
func (a *Int32) Peek() int32 { return a.v.Load() }

type Uint32 struct {
	v   atomic.Uint32
	obj vsched.Obj
}

func (a *Uint32) Load() uint32         { pt("Uint32.Load", &a.obj); return a.v.Load() }
func (a *Uint32) Store(v uint32)       { pt("Uint32.Store", &a.obj); a.v.Store(v) }
func (a *Uint32) Add(d uint32) uint32  { pt("Uint32.Add", &a.obj); return a.v.Add(d) }
func (a *Uint32) Swap(v uint32) uint32 { pt("Uint32.Swap", &a.obj); return a.v.Swap(v) }
func (a *Uint32) CompareAndSwap(o, n uint32) bool {
	pt("Uint32.CAS", &a.obj)
	return a.v.CompareAndSwap(o, n)
}
func (a *Uint32) Peek() uint32 { return a.v.Load() }

type Uint64 struct {
	v   atomic.Uint64
	obj vsched.Obj
}

func (a *Uint64) Load() uint64         { pt("Uint64.Load", &a.obj); return a.v.Load() }
func (a *Uint64) Store(v uint64)       { pt("Uint64.Store", &a.obj); a.v.Store(v) }
func (a *Uint64) Add(d uint64) uint64  { pt("Uint64.Add", &a.obj); return a.v.Add(d) }
func (a *Uint64) Swap(v uint64) uint64 { pt("Uint64.Swap", &a.obj); return a.v.Swap(v) }
func (a *Uint64) CompareAndSwap(o, n uint64) bool {
	pt("Uint64.CAS", &a.obj)
	return a.v.CompareAndSwap(o, n)
}
func (a *Uint64) Peek() uint64 { return a.v.Load() }

type Bool struct {
	v   atomic.Bool
	obj vsched.Obj
}

func (a *Bool) Load() bool       { pt("Bool.Load", &a.obj); return a.v.Load() }
func (a *Bool) Store(v bool)     { pt("Bool.Store", &a.obj); a.v.Store(v) }
func (a *Bool) Swap(v bool) bool { pt("Bool.Swap", &a.obj); return a.v.Swap(v) }
func (a *Bool) CompareAndSwap(o, n bool) bool {
	pt("Bool.CAS", &a.obj)
	return a.v.CompareAndSwap(o, n)
}
func (a *Bool) Peek() bool { return a.v.Load() }

type Pointer[T any] struct {
	v   atomic.Pointer[T]
	obj vsched.Obj
}

func (a *Pointer[T]) Load() *T       { pt("Pointer.Load", &a.obj); return a.v.Load() }
func (a *Pointer[T]) Store(v *T)     { pt("Pointer.Store", &a.obj); a.v.Store(v) }
func (a *Pointer[T]) Swap(v *T) *T   { pt("Pointer.Swap", &a.obj); return a.v.Swap(v) }
func (a *Pointer[T]) CompareAndSwap(o, n *T) bool {
	pt("Pointer.CAS", &a.obj)
	return a.v.CompareAndSwap(o, n)
}

type Value struct {
	v   atomic.Value
	obj vsched.Obj
}

func (a *Value) Load() any       { pt("Value.Load", &a.obj); return a.v.Load() }
func (a *Value) Store(v any)     { pt("Value.Store", &a.obj); a.v.Store(v) }
func (a *Value) Swap(v any) any  { pt("Value.Swap", &a.obj); return a.v.Swap(v) }
func (a *Value) CompareAndSwap(o, n any) bool {
	pt("Value.CAS", &a.obj)
	return a.v.CompareAndSwap(o, n)
}

func LoadInt32(p *int32) int32 { addr("LoadInt32", unsafe.Pointer(p)); return atomic.LoadInt32(p) }
func LoadInt64(p *int64) int64 { addr("LoadInt64", unsafe.Pointer(p)); return atomic.LoadInt64(p) }
func LoadUint32(p *uint32) uint32 {
	addr("LoadUint32", unsafe.Pointer(p))
	return atomic.LoadUint32(p)
}
func LoadUint64(p *uint64) uint64 {
	addr("LoadUint64", unsafe.Pointer(p))
	return atomic.LoadUint64(p)
}
func StoreInt32(p *int32, v int32) { addr("StoreInt32", unsafe.Pointer(p)); atomic.StoreInt32(p, v) }
func StoreInt64(p *int64, v int64) { addr("StoreInt64", unsafe.Pointer(p)); atomic.StoreInt64(p, v) }
func StoreUint32(p *uint32, v uint32) {
	addr("StoreUint32", unsafe.Pointer(p))
	atomic.StoreUint32(p, v)
}
func StoreUint64(p *uint64, v uint64) {
	addr("StoreUint64", unsafe.Pointer(p))
	atomic.StoreUint64(p, v)
}
func AddInt32(p *int32, d int32) int32 { addr("AddInt32", unsafe.Pointer(p)); return atomic.AddInt32(p, d) }
func AddInt64(p *int64, d int64) int64 { addr("AddInt64", unsafe.Pointer(p)); return atomic.AddInt64(p, d) }
func AddUint32(p *uint32, d uint32) uint32 {
	addr("AddUint32", unsafe.Pointer(p))
	return atomic.AddUint32(p, d)
}
func AddUint64(p *uint64, d uint64) uint64 {
	addr("AddUint64", unsafe.Pointer(p))
	return atomic.AddUint64(p, d)
}
func SwapInt32(p *int32, v int32) int32 { addr("SwapInt32", unsafe.Pointer(p)); return atomic.SwapInt32(p, v) }
func SwapInt64(p *int64, v int64) int64 { addr("SwapInt64", unsafe.Pointer(p)); return atomic.SwapInt64(p, v) }
func SwapUint32(p *uint32, v uint32) uint32 {
	addr("SwapUint32", unsafe.Pointer(p))
	return atomic.SwapUint32(p, v)
}
func CompareAndSwapInt32(p *int32, o, n int32) bool {
	addr("CASInt32", unsafe.Pointer(p))
	return atomic.CompareAndSwapInt32(p, o, n)
}
func CompareAndSwapInt64(p *int64, o, n int64) bool {
	addr("CASInt64", unsafe.Pointer(p))
	return atomic.CompareAndSwapInt64(p, o, n)
}
func CompareAndSwapUint32(p *uint32, o, n uint32) bool {
	addr("CASUint32", unsafe.Pointer(p))
	return atomic.CompareAndSwapUint32(p, o, n)
}
func CompareAndSwapUint64(p *uint64, o, n uint64) bool {
	addr("CASUint64", unsafe.Pointer(p))
	return atomic.CompareAndSwapUint64(p, o, n)
}
