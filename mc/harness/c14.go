package harness

import (
	"bytes"
	"context"
	"encoding/json"
	"fmt"
	"strings"
	"time"

	ae "github.com/godaddy/asherah/go/appencryption"
	"github.com/godaddy/asherah/go/appencryption/pkg/persistence"

	"asherahverif/doubles"
	"asherahverif/explore"
	"asherahverif/ref"
	"asherahverif/shim/vclock"
	"asherahverif/shim/vsched"
)

// ---------------------------------------------------------------------------------
// C14: racing key creators. N "processes" (goroutine + own factory, caches, secrets)
// share one metastore and KMS; every interleaving at the granularity of metastore /
// KMS calls is explored.
// ---------------------------------------------------------------------------------

type c14Scenario struct {
	name   string
	procs  int
	start  string // cold | skOnly | expired | revokedIK | revokedSK
	encs   int    // encrypts per process
	spec   PolicySpec
	bucket bool // allow the clock to cross into the next precision bucket at one metastore call (1 deviation)
}

type c14Proc struct {
	tf   *doubles.TrackFactory
	aead *doubles.SpyAEAD
	f    *ae.SessionFactory
	s    *ae.Session
	recs []*ae.DataRowRecord
	errs []error
	pans []string
}

type bucketMS struct {
	*doubles.SpyMetastore
	armed *bool
	used  *bool
}

func (b bucketMS) maybeCross() {
	if *b.armed && !*b.used {
		if vsched.Choose(2, "clock-crosses-bucket") == 1 {
			*b.used = true
			vclock.Advance(P * time.Second)
			vsched.GlobalEvent("bucket")
		}
	}
}

func (sc c14Scenario) body(c *explore.Ctx) {
	vsched.BeginQuiet()
	reg := doubles.NewKeyRegistry()
	ms := doubles.NewSpyMetastore()
	kms := doubles.NewSpyKMS()
	armed, used := false, false
	var store ae.Metastore = ms
	if sc.bucket {
		store = &c14Store{bucketMS{ms, &armed, &used}}
	}
	procs := make([]*c14Proc, sc.procs)
	for i := range procs {
		p := &c14Proc{tf: doubles.NewTrackFactoryShared(reg, fmt.Sprintf("P%d", i+1))}
		p.aead = doubles.NewSpyAEAD(p.tf)
		p.f = ae.NewSessionFactory(&ae.Config{Service: "s", Product: "p", Policy: sc.spec.Build()}, store, kms, p.aead, ae.WithSecretFactory(p.tf))
		p.s, _ = p.f.GetSession("A")
		procs[i] = p
	}
	must := func(_ *ae.DataRowRecord, err error) {
		if err != nil {
			panic(fmt.Sprintf("C14 set-up: %v", err))
		}
	}
	ikID := ref.IntermediateKeyID("A", "s", "p", "")
	skID := ref.SystemKeyID("s", "p", "")
	switch sc.start {
	case "cold":
	case "skOnly":
		sb, _ := procs[0].f.GetSession("B")
		must(sb.Encrypt(ctx, []byte("b")))
		sb.Close()
	case "expired":
		for _, p := range procs {
			must(p.s.Encrypt(ctx, []byte("warm")))
		}
		vclock.Advance((E + 1) * time.Second)
	case "revokedIK", "revokedSK":
		// processes warm up 300 s apart so that after the revocation the first one is stale and the last one still fresh
		for i, p := range procs {
			must(p.s.Encrypt(ctx, []byte("warm")))
			if i < len(procs)-1 {
				vclock.Advance(300 * time.Second)
			}
		}
		if sc.start == "revokedIK" {
			ms.Revoke(ikID, ms.Latest(ikID).Created)
		} else {
			ms.Revoke(skID, ms.Latest(skID).Created)
		}
		vclock.Advance((R - 299) * time.Second)
	}
	rowsBefore := map[string]bool{}
	for _, r := range ms.SortedRows() {
		rowsBefore[rowKey(r.ID, r.Created)] = true
	}
	vsched.EndQuiet()
	armed = true
	callsFrom := len(ms.Calls)
	tStart := vclock.Unix()
	for i, p := range procs {
		i, p := i, p
		vsched.GoNamed(fmt.Sprintf("proc%d", i+1), func() {
			for n := 0; n < sc.encs; n++ {
				pl := []byte(fmt.Sprintf("payload-P%d-%d", i+1, n))
				var rec *ae.DataRowRecord
				var err error
				pan := safe(func() { rec, err = p.s.Encrypt(ctx, append([]byte(nil), pl...)) })
				p.recs = append(p.recs, rec)
				p.errs = append(p.errs, err)
				p.pans = append(p.pans, pan)
			}
		})
	}
	vsched.Quiesce()
	armed = false
	for i, p := range procs {
		if len(p.recs) != sc.encs {
			// (parked event goroutines of session caches are daemons, only the processes themselves count)
			c.Failf("blocked", "process %d finished %d of %d encrypts; parked threads: %v", i+1, len(p.recs), sc.encs, vsched.Blocked())
			return
		}
	}
	// ---- oracle
	vsched.BeginQuiet()
	defer vsched.EndQuiet()
	trail := func() string {
		var sb strings.Builder
		for _, cl := range ms.Calls[callsFrom:] {
			if cl.At >= tStart {
				fmt.Fprintf(&sb, "T%d:%s(%s/%d)=%s; ", cl.Thread, cl.Op, cl.ID, cl.Created, cl.Result)
			}
		}
		return sb.String()
	}
	table := tableOf(ms)
	var outcome []string
	for i, p := range procs {
		for n := range p.recs {
			pl := []byte(fmt.Sprintf("payload-P%d-%d", i+1, n))
			switch {
			case p.pans[n] != "":
				c.Failf("panic", "process %d encrypt panicked: %s", i+1, p.pans[n])
				outcome = append(outcome, "panic")
				continue
			case p.errs[n] != nil:
				c.Failf("encrypt-failed:"+errClass(p.errs[n]), "process %d encrypt %d failed although metastore and KMS are healthy: %v; calls: %s", i+1, n, p.errs[n], trail())
				outcome = append(outcome, "err")
				continue
			}
			rec := p.recs[n]
			ik := table[rec.Key.ParentKeyMeta.ID][rec.Key.ParentKeyMeta.Created]
			if ik == nil {
				c.Failf("record-under-unstored-ik", "process %d returned a record under IK %s/%d which is not in the metastore; calls: %s", i+1, rec.Key.ParentKeyMeta.ID, rec.Key.ParentKeyMeta.Created, trail())
				continue
			}
			if ik.ParentKeyMeta == nil || table[ik.ParentKeyMeta.KeyId][ik.ParentKeyMeta.Created] == nil {
				c.Failf("ik-under-unstored-sk", "process %d uses IK %d whose system key is not in the metastore; calls: %s", i+1, rec.Key.ParentKeyMeta.Created, trail())
				continue
			}
			outcome = append(outcome, fmt.Sprintf("ik%d/sk%d", rec.Key.ParentKeyMeta.Created-tStart+tStart%60, ik.ParentKeyMeta.Created-tStart+tStart%60))
			if out, err := ref.Decrypt(table, kms.Unwrap, toRefRow(rec)); err != nil || !bytes.Equal(out, pl) {
				c.Failf("reference-cannot-decrypt", "record of process %d cannot be decrypted from the metastore contents: %v; calls: %s", i+1, err, trail())
			}
			for j, q := range procs {
				out, err := q.s.Decrypt(ctx, *cloneDRR(rec))
				if err != nil || !bytes.Equal(out, pl) {
					c.Failf("peer-cannot-decrypt", "process %d cannot decrypt the record of process %d: %v; calls: %s", j+1, i+1, err, trail())
				}
			}
		}
	}
	// the store only grew, nothing was modified or removed
	for k := range rowsBefore {
		parts := strings.SplitN(k, "/", 2)
		if ms.Rows[parts[0]] == nil || ms.Rows[parts[0]][int64(atoi64(parts[1]))] == nil {
			c.Failf("row-removed", "row %s disappeared", k)
		}
	}
	if bad := ms.CheckImmutable(); len(bad) > 0 {
		c.Failf("row-modified", "stored rows were modified: %v", bad)
	}
	for _, cl := range ms.Calls[callsFrom:] {
		if cl.Op == "Store" && cl.Result == "stored" && rowsBefore[rowKey(cl.ID, cl.Created)] {
			c.Failf("row-overwritten", "Store overwrote %s/%d", cl.ID, cl.Created)
		}
	}
	// a process whose insert was refused discarded its unsaved key: no generated key that is not in the store stays live
	stored := map[int]bool{}
	for id, byC := range table {
		for _, kr := range byC {
			var kb []byte
			if strings.HasPrefix(id, "_SK_") {
				kb, _ = kms.Unwrap(kr.Key)
			} else if kr.ParentKeyMeta != nil {
				if skr := table[kr.ParentKeyMeta.KeyId][kr.ParentKeyMeta.Created]; skr != nil {
					if skb, e := kms.Unwrap(skr.Key); e == nil {
						kb, _ = ref.Open(kr.Key, skb)
					}
				}
			}
			if kb != nil {
				stored[reg.IDOf(kb)] = true
			}
		}
	}
	for i, p := range procs {
		for _, s := range p.tf.Secrets {
			if !s.Closed && !stored[s.KeyID] {
				c.Failf("unsaved-key-kept", "process %d keeps secret#%d alive whose key is not in the metastore (a generated key whose insert was refused must be discarded); calls: %s", i+1, s.ID, trail())
			}
			if s.AfterClose > 0 {
				c.Failf("use-after-destroy", "process %d touched secret#%d after closing it", i+1, s.ID)
			}
		}
	}
	c.Outcome(strings.Join(outcome, ","))
	for _, p := range procs {
		p.s.Close()
		p.f.Close()
	}
}

type ctxT = context.Context

func atoi64(s string) int64 {
	var n int64
	fmt.Sscan(s, &n)
	return n
}

// c14Store wraps the spy metastore with the optional "clock crosses a precision bucket" event.
type c14Store struct{ b bucketMS }

func (s *c14Store) Load(c ctxT, id string, created int64) (*ae.EnvelopeKeyRecord, error) {
	s.b.maybeCross()
	return s.b.SpyMetastore.Load(c, id, created)
}
func (s *c14Store) LoadLatest(c ctxT, id string) (*ae.EnvelopeKeyRecord, error) {
	s.b.maybeCross()
	return s.b.SpyMetastore.LoadLatest(c, id)
}
func (s *c14Store) Store(c ctxT, id string, created int64, r *ae.EnvelopeKeyRecord) (bool, error) {
	s.b.maybeCross()
	return s.b.SpyMetastore.Store(c, id, created, r)
}

func c14Scenarios(thorough bool) []c14Scenario {
	var out []c14Scenario
	for _, st := range []string{"cold", "skOnly", "expired", "revokedIK", "revokedSK"} {
		out = append(out, c14Scenario{name: "2p-" + st, procs: 2, start: st, encs: 1, spec: SpecDefault})
	}
	out = append(out, c14Scenario{name: "2p-cold-bucket", procs: 2, start: "cold", encs: 1, spec: SpecDefault, bucket: true})
	out = append(out, c14Scenario{name: "2p-expired-bucket", procs: 2, start: "expired", encs: 1, spec: SpecDefault, bucket: true})
	if thorough {
		for _, st := range []string{"cold", "skOnly", "expired", "revokedIK", "revokedSK"} {
			out = append(out, c14Scenario{name: "3p-" + st, procs: 3, start: st, encs: 1, spec: SpecDefault})
			out = append(out, c14Scenario{name: "2p-2enc-" + st, procs: 2, start: st, encs: 2, spec: SpecDefault})
			out = append(out, c14Scenario{name: "2p-nocache-" + st, procs: 2, start: st, encs: 1, spec: SpecNoCache})
		}
		out = append(out, c14Scenario{name: "2p-revokedSK-bucket", procs: 2, start: "revokedSK", encs: 1, spec: SpecDefault, bucket: true})
		out = append(out, c14Scenario{name: "2p-revokedIK-bucket", procs: 2, start: "revokedIK", encs: 1, spec: SpecDefault, bucket: true})
		out = append(out, c14Scenario{name: "2p-skOnly-bucket", procs: 2, start: "skOnly", encs: 1, spec: SpecDefault, bucket: true})
		for _, st := range []string{"cold", "expired", "revokedSK"} {
			out = append(out, c14Scenario{name: "2p-shared-lru-1-" + st, procs: 2, start: st, encs: 1, spec: SpecShared("lru", 1)})
			out = append(out, c14Scenario{name: "2p-sessions-" + st, procs: 2, start: st, encs: 1, spec: SpecSessions("slru", 1)})
			out = append(out, c14Scenario{name: "3p-nocache-" + st, procs: 3, start: st, encs: 1, spec: SpecNoCache})
		}
	}
	return out
}

// CheckC14 explores every scenario with preemptions placed at metastore / KMS calls.
func CheckC14(r *Report) {
	r.Rule = "N processes (goroutine + own factory, caches, secret factory) sharing one spy metastore and KMS each perform 1-2 encrypts from cold / SK-only / expired / revoked-IK / revoked-SK start states; every interleaving at the granularity of metastore and KMS calls (context switches only at external calls and at blocking points; unbounded number of them for 2 processes) plus optionally one precision-bucket crossing of the clock; the same 2-process race over the SDK's own instrumented MemoryMetastore with <= 2 preemptions at any synchronisation point (also inside its Store / Load bodies); non-trivial = complete interleavings in which both processes touched the metastore"
	for _, sc := range c14Scenarios(r.Thorough()) {
		sc := sc
		if !r.TimeLeft() {
			r.Exhaustive = false
			r.Caps = append(r.Caps, sc.name+": not started (time budget)")
			continue
		}
		t0 := time.Now()
		pre := -1
		if sc.procs > 2 {
			pre = 4
		}
		cfg := explore.Config{Name: "C14/" + sc.name, Preemptions: pre, Deviations: 1, HBCache: true, ExtOnly: true, Deadline: r.Deadline, MaxViolations: 50}
		res := explore.Explore(cfg, sc.body)
		// one violation per signature
		seen := map[string]bool{}
		var keep []explore.Violation
		for _, v := range res.Violations {
			if !seen[v.Sig] {
				seen[v.Sig] = true
				keep = append(keep, v)
			}
		}
		res.Violations = keep
		b := "preemptions at external calls: unbounded"
		if pre >= 0 {
			b = fmt.Sprintf("preemptions at external calls <= %d", pre)
		}
		r.AddExplore(res, b, time.Since(t0).Seconds())
		r.DistinctNontrivial += res.Complete - res.Conflicting // all complete interleavings share the store; count them all
	}
	// the same race over the SDK's own in-memory metastore, preemptions anywhere (also inside its Store / Load bodies)
	type realRun struct{ kind, start string }
	mem := []realRun{{"memory", "cold"}, {"dynamodb-v1", "cold"}, {"dynamodb-v1", "expired"}, {"dynamodb-v2", "cold"}}
	if r.Thorough() {
		mem = append(mem, realRun{"memory", "expired"}, realRun{"dynamodb-v2", "expired"}, realRun{"dynamodb-deprecated", "expired"})
	}
	for _, rr := range mem {
		st := rr.start
		if !r.TimeLeft() {
			r.Exhaustive = false
			r.Caps = append(r.Caps, c14RealName(rr.kind, st)+": not started (time budget)")
			continue
		}
		t0 := time.Now()
		cfg := explore.Config{Name: "C14/" + c14RealName(rr.kind, st), Preemptions: 2, HBCache: rr.kind == "memory", Deadline: r.Deadline, MaxViolations: 50,
			SigFilter: func(sig string) bool { return !strings.HasPrefix(sig, "C03:") }}
		res := explore.Explore(cfg, c14RealBody(rr.kind, st, 2))
		seen := map[string]bool{}
		var keep []explore.Violation
		for _, v := range res.Violations {
			if strings.HasPrefix(v.Sig, "C03:") {
				continue
			}
			if !seen[v.Sig] {
				seen[v.Sig] = true
				keep = append(keep, v)
			}
		}
		res.Violations = keep
		r.AddExplore(res, "preemptions <= 2 at any synchronisation / external call", time.Since(t0).Seconds())
		r.DistinctNontrivial += res.Complete - res.Conflicting
	}
}

// ---------------------------------------------------------------------------------
// C14 over the SDK's own in-memory metastore: the same racing processes, but the shared
// store is the real (instrumented) persistence.MemoryMetastore, so the interleavings
// also cut through its Store / Load bodies (its lock operations are scheduling points).
// ---------------------------------------------------------------------------------

type c14MemCall struct {
	Op      string
	ID      string
	Created int64
	Rec     *ae.EnvelopeKeyRecord
	OK      bool
	Thread  int
}

// c14MemStore logs the calls that reach a real metastore implementation (memory, DynamoDB plugins over the fake).
type c14MemStore struct {
	mm    ae.Metastore
	calls []c14MemCall
}

func (s *c14MemStore) Load(c ctxT, id string, created int64) (*ae.EnvelopeKeyRecord, error) {
	r, err := s.mm.Load(c, id, created)
	defer vsched.LockDoubles()()
	s.calls = append(s.calls, c14MemCall{"Load", id, created, r, r != nil, vsched.CurThread()})
	return r, err
}
func (s *c14MemStore) LoadLatest(c ctxT, id string) (*ae.EnvelopeKeyRecord, error) {
	r, err := s.mm.LoadLatest(c, id)
	cr := int64(0)
	if r != nil {
		cr = r.Created
	}
	defer vsched.LockDoubles()()
	s.calls = append(s.calls, c14MemCall{"LoadLatest", id, cr, r, r != nil, vsched.CurThread()})
	return r, err
}
func (s *c14MemStore) Store(c ctxT, id string, created int64, r *ae.EnvelopeKeyRecord) (bool, error) {
	ok, err := s.mm.Store(c, id, created, r)
	defer vsched.LockDoubles()()
	s.calls = append(s.calls, c14MemCall{"Store", id, created, r, ok, vsched.CurThread()})
	return ok, err
}

// c14RealStores: the real metastore implementations the race is run over; rows() is a canonical dump of what is stored.
func c14RealStore(kind string) (ae.Metastore, func() map[string]string) {
	if kind == "memory" {
		mm := persistence.NewMemoryMetastore()
		return mm, func() map[string]string {
			out := map[string]string{}
			for id, byC := range mm.Envelopes {
				for cr, r := range byC {
					pm := "nil"
					if r.ParentKeyMeta != nil {
						pm = fmt.Sprintf("%s/%d", r.ParentKeyMeta.ID, r.ParentKeyMeta.Created)
					}
					out[rowKey(id, cr)] = fmt.Sprintf("%v|%d|%x|%s", r.Revoked, r.Created, r.EncryptedKey, pm)
				}
			}
			return out
		}
	}
	ms, fake := c13DynBuild(strings.TrimPrefix(kind, "dynamodb-"))
	return ms, func() map[string]string {
		out := map[string]string{}
		for _, it := range fake.Tables["EncryptionKey"].Items {
			b, _ := json.Marshal(it)
			id, cr := "", ""
			if it["Id"] != nil && it["Id"].S != nil {
				id = *it["Id"].S
			}
			if it["Created"] != nil && it["Created"].N != nil {
				cr = *it["Created"].N
			}
			out[id+"/"+cr] = string(b)
		}
		return out
	}
}

func c14MemBody(start string, nprocs int) explore.Body { return c14RealBody("memory", start, nprocs) }

// c14RealBody: nprocs processes (own factory, caches, secrets) race one encrypt each over one real metastore.
func c14RealBody(kind, start string, nprocs int) explore.Body {
	return func(c *explore.Ctx) {
		vsched.BeginQuiet()
		reg := doubles.NewKeyRegistry()
		real, rows := c14RealStore(kind)
		st := &c14MemStore{mm: real}
		kms := doubles.NewSpyKMS()
		mkProc := func(name string) *c14Proc {
			p := &c14Proc{tf: doubles.NewTrackFactoryShared(reg, name)}
			p.aead = doubles.NewSpyAEAD(p.tf)
			p.f = ae.NewSessionFactory(&ae.Config{Service: "s", Product: "p", Policy: SpecDefault.Build()}, st, kms, p.aead, ae.WithSecretFactory(p.tf))
			p.s, _ = p.f.GetSession("A")
			return p
		}
		procs := make([]*c14Proc, nprocs)
		for i := range procs {
			procs[i] = mkProc(fmt.Sprintf("P%d", i+1))
		}
		if start == "expired" {
			for _, p := range procs {
				if _, err := p.s.Encrypt(ctx, []byte("warm")); err != nil {
					panic(fmt.Sprintf("C14 set-up: %v", err))
				}
			}
			vclock.Advance((E + 1) * time.Second)
		}
		before := rows()
		callsFrom := len(st.calls)
		vsched.EndQuiet()
		for i, p := range procs {
			i, p := i, p
			vsched.GoNamed(fmt.Sprintf("proc%d", i+1), func() {
				var rec *ae.DataRowRecord
				var err error
				pan := safe(func() { rec, err = p.s.Encrypt(ctx, []byte(fmt.Sprintf("payload-P%d", i+1))) })
				p.recs = append(p.recs, rec)
				p.errs = append(p.errs, err)
				p.pans = append(p.pans, pan)
			})
		}
		vsched.Quiesce()
		for i, p := range procs {
			if len(p.recs) != 1 {
				c.Failf("blocked", "process %d did not finish its encrypt; parked threads: %v", i+1, vsched.Blocked())
				return
			}
		}
		vsched.BeginQuiet()
		defer vsched.EndQuiet()
		trail := func() string {
			var sb strings.Builder
			for _, cl := range st.calls[callsFrom:] {
				fmt.Fprintf(&sb, "T%d:%s(%s/%d)=%v; ", cl.Thread, cl.Op, cl.ID, cl.Created, cl.OK)
			}
			return sb.String()
		}
		// the store only grew: rows present before the race are unchanged, and a Store that reported success is the only
		// one that did for its (id, created)
		after := rows()
		for k, v := range before {
			if after[k] != v {
				c.Failf("row-modified", "row %s was replaced or removed; calls: %s", k, trail())
			}
		}
		won := map[string]int{}
		winner := map[string]*ae.EnvelopeKeyRecord{}
		for _, cl := range st.calls[callsFrom:] {
			if cl.Op != "Store" || !cl.OK {
				continue
			}
			k := rowKey(cl.ID, cl.Created)
			won[k]++
			winner[k] = cl.Rec
			if _, existed := before[k]; won[k] > 1 || existed {
				c.Failf("row-overwritten", "more than one Store of %s reported success (an existing key record was replaced); calls: %s", k, trail())
			}
		}
		for k, rec := range winner {
			if won[k] != 1 {
				continue
			}
			parts := strings.SplitN(k, "/", 2)
			got, err := real.Load(ctx, parts[0], atoi64(parts[1]))
			if err != nil || got == nil || !bytes.Equal(got.EncryptedKey, rec.EncryptedKey) {
				c.Failf("row-overwritten", "the record stored successfully as %s is no longer the stored one (%v); calls: %s", k, err, trail())
			}
		}
		// every process ended up under a key that a process with nothing but the store and the KMS can load
		cold := mkProc("cold-reader")
		var outcome []string
		for i, p := range procs {
			pl := []byte(fmt.Sprintf("payload-P%d", i+1))
			switch {
			case p.pans[0] != "":
				c.Failf("panic", "process %d encrypt panicked: %s", i+1, p.pans[0])
				continue
			case p.errs[0] != nil:
				c.Failf("encrypt-failed:"+errClass(p.errs[0]), "process %d encrypt failed although metastore and KMS are healthy: %v; calls: %s", i+1, p.errs[0], trail())
				continue
			}
			rec := p.recs[0]
			outcome = append(outcome, fmt.Sprintf("ik%d", rec.Key.ParentKeyMeta.Created))
			for j, q := range append(append([]*c14Proc{}, procs...), cold) {
				out, err := q.s.Decrypt(ctx, *cloneDRR(rec))
				if err != nil || !bytes.Equal(out, pl) {
					who := fmt.Sprintf("process %d", j+1)
					if q == cold {
						who = "a fresh process"
					}
					c.Failf("peer-cannot-decrypt", "%s cannot decrypt the record of process %d: %v; calls: %s", who, i+1, err, trail())
					if q == cold {
						if ik, lerr := real.Load(ctx, rec.Key.ParentKeyMeta.ID, rec.Key.ParentKeyMeta.Created); lerr == nil && ik != nil {
							c.Failf("C03:record-not-under-the-stored-keys", "the record of process %d names %s/%d, which is in the metastore, but the stored key chain does not open it (%v): the data key was wrapped under another key than the one stored under that name; calls: %s", i+1, rec.Key.ParentKeyMeta.ID, rec.Key.ParentKeyMeta.Created, err, trail())
						}
					}
				}
			}
		}
		c.Outcome(strings.Join(outcome, ","))
		for _, p := range append(procs, cold) {
			p.s.Close()
			p.f.Close()
		}
	}
}

func c14RealName(kind, start string) string {
	if kind == "memory" {
		return "mem-2p-" + start
	}
	return kind + "-2p-" + start
}

// ---------------------------------------------------------------------------------
// C02 (schedules): two sessions of ONE factory (different partitions) encrypt at the same time over one real
// metastore object (memory, DynamoDB plugins): every record handed out names an intermediate key and a system key
// that are in the store at that moment, and a fresh process decrypts it. Every interleaving up to the bound.
// ---------------------------------------------------------------------------------

func c02SchedBody(kind, start string) explore.Body {
	return func(c *explore.Ctx) {
		vsched.BeginQuiet()
		reg := doubles.NewKeyRegistry()
		real, _ := c14RealStore(kind)
		st := &c14MemStore{mm: real}
		kms := doubles.NewSpyKMS()
		mk := func(name string) (*ae.SessionFactory, *doubles.TrackFactory) {
			tf := doubles.NewTrackFactoryShared(reg, name)
			return ae.NewSessionFactory(&ae.Config{Service: "s", Product: "p", Policy: SpecDefault.Build()}, st, kms, doubles.NewSpyAEAD(tf), ae.WithSecretFactory(tf)), tf
		}
		f, _ := mk("F")
		parts := []string{"A", "B"}
		sess := make([]*ae.Session, len(parts))
		for i, p := range parts {
			sess[i], _ = f.GetSession(p)
		}
		if start == "sk-exists" {
			sc, _ := f.GetSession("C")
			if _, err := sc.Encrypt(ctx, []byte("c")); err != nil {
				panic(fmt.Sprintf("C02 set-up: %v", err))
			}
			sc.Close()
		}
		callsFrom := len(st.calls)
		vsched.EndQuiet()
		recs := make([]*ae.DataRowRecord, len(parts))
		errs := make([]error, len(parts))
		pans := make([]string, len(parts))
		done := make([]bool, len(parts))
		durable := make([]string, len(parts))
		for i := range parts {
			i := i
			vsched.GoNamed("enc-"+parts[i], func() {
				pans[i] = safe(func() { recs[i], errs[i] = sess[i].Encrypt(ctx, []byte("payload-"+parts[i])) })
				if pans[i] == "" && errs[i] == nil {
					// at the moment encrypt returns: the chain is in the store
					rec := recs[i]
					ik, err := real.Load(ctx, rec.Key.ParentKeyMeta.ID, rec.Key.ParentKeyMeta.Created)
					switch {
					case err != nil || ik == nil:
						durable[i] = fmt.Sprintf("the intermediate key %s/%d it names is not in the metastore (%v)", rec.Key.ParentKeyMeta.ID, rec.Key.ParentKeyMeta.Created, err)
					case ik.ParentKeyMeta == nil:
						durable[i] = "the stored intermediate key names no system key"
					default:
						if sk, err := real.Load(ctx, ik.ParentKeyMeta.ID, ik.ParentKeyMeta.Created); err != nil || sk == nil {
							durable[i] = fmt.Sprintf("the system key %s/%d its intermediate key names is not in the metastore (%v)", ik.ParentKeyMeta.ID, ik.ParentKeyMeta.Created, err)
						}
					}
				}
				done[i] = true
			})
		}
		vsched.Quiesce()
		vsched.BeginQuiet()
		defer vsched.EndQuiet()
		trail := func() string {
			var sb strings.Builder
			for _, cl := range st.calls[callsFrom:] {
				fmt.Fprintf(&sb, "T%d:%s(%s/%d)=%v; ", cl.Thread, cl.Op, cl.ID, cl.Created, cl.OK)
			}
			return sb.String()
		}
		cold, _ := mk("cold")
		var outcome []string
		for i, p := range parts {
			switch {
			case !done[i]:
				c.Failf("C02:blocked", "the encrypt of partition %s never returned; parked: %v", p, vsched.Blocked())
				return
			case pans[i] != "":
				c.Failf("C02:panic", "the encrypt of partition %s panicked: %s", p, pans[i])
				continue
			case errs[i] != nil:
				c.Failf("C02:encrypt-failed:"+errClass(errs[i]), "the encrypt of partition %s failed although metastore and KMS are healthy: %v; calls: %s", p, errs[i], trail())
				continue
			}
			if durable[i] != "" {
				c.Failf("C02:chain-not-durable", "encrypt returned a record for partition %s but %s; calls: %s", p, durable[i], trail())
			}
			cs, _ := cold.GetSession(p)
			out, err := cs.Decrypt(ctx, *cloneDRR(recs[i]))
			cs.Close()
			if err != nil || !bytes.Equal(out, []byte("payload-"+p)) {
				c.Failf("C02:fresh-process-cannot-decrypt", "a fresh process holding only the metastore and the KMS cannot decrypt the record of partition %s: %v; calls: %s", p, err, trail())
				if durable[i] == "" {
					// the rows named by the record exist, yet they do not open it: the data key is not wrapped under the
					// intermediate key stored under that name (or that key not under the stored system key)
					c.Failf("C03:record-not-under-the-stored-keys", "the record of partition %s names %s/%d, which is in the metastore, but the stored key chain does not open it (%v): the data key was wrapped under another key; calls: %s", p, recs[i].Key.ParentKeyMeta.ID, recs[i].Key.ParentKeyMeta.Created, err, trail())
				}
			}
			outcome = append(outcome, fmt.Sprintf("%s:ik%d", p, recs[i].Key.ParentKeyMeta.Created))
		}
		c.Outcome(strings.Join(outcome, ","))
		for _, s := range sess {
			s.Close()
		}
		f.Close()
		cold.Close()
	}
}

type c02SchedCase struct{ kind, start string }

func c02SchedCases(thorough bool) []c02SchedCase {
	out := []c02SchedCase{{"dynamodb-v2", "cold"}, {"dynamodb-v1", "cold"}, {"dynamodb-v2", "sk-exists"}, {"memory", "cold"}}
	if thorough {
		out = append(out, c02SchedCase{"dynamodb-v1", "sk-exists"}, c02SchedCase{"dynamodb-deprecated", "cold"}, c02SchedCase{"memory", "sk-exists"})
	}
	return out
}

func c02Sched(r *Report) { c02SchedFor(r, "C02") }

// c02SchedFor runs the schedules and keeps the failures of one property.
func c02SchedFor(r *Report, prop string) {
	for _, cs := range c02SchedCases(r.Thorough()) {
		name := "C02s/" + cs.kind + "-2-partitions-" + cs.start
		if !r.TimeLeft() {
			r.Exhaustive = false
			r.Caps = append(r.Caps, name+": not started (time budget)")
			continue
		}
		t0 := time.Now()
		cfg := explore.Config{Name: name, Preemptions: 2, HBCache: cs.kind == "memory", Deadline: r.Deadline, MaxViolations: 20,
			SigFilter: func(sig string) bool { return strings.HasPrefix(sig, prop+":") }}
		res := explore.Explore(cfg, c02SchedBody(cs.kind, cs.start))
		seen := map[string]bool{}
		var keep []explore.Violation
		for _, v := range res.Violations {
			if !strings.HasPrefix(v.Sig, prop+":") && v.Sig != "panic" && v.Sig != "deadlock" {
				continue
			}
			if !seen[v.Sig] {
				seen[v.Sig] = true
				keep = append(keep, v)
			}
		}
		res.Violations = keep
		r.AddExplore(res, "preemptions <= 2 (SDK synchronisation + metastore transport)", time.Since(t0).Seconds())
		r.DistinctNontrivial += res.Complete
	}
}

func c02SchedReplayBody(h string) explore.Body {
	for _, cs := range c02SchedCases(true) {
		if h == "C02s/"+cs.kind+"-2-partitions-"+cs.start {
			return c02SchedBody(cs.kind, cs.start)
		}
	}
	return nil
}

// c03RealRace runs the creators' race over the real metastore objects for C03: a record whose named rows exist in the
// store must be opened by that stored chain.
func c03RealRace(r *Report) {
	for _, rr := range []struct{ kind, start string }{{"dynamodb-v2", "cold"}, {"dynamodb-v1", "cold"}, {"dynamodb-v2", "expired"}, {"memory", "cold"}} {
		if !r.TimeLeft() {
			r.Exhaustive = false
			r.Caps = append(r.Caps, "C03r/"+c14RealName(rr.kind, rr.start)+": not started (time budget)")
			continue
		}
		t0 := time.Now()
		cfg := explore.Config{Name: "C14/" + c14RealName(rr.kind, rr.start), Preemptions: 2, HBCache: rr.kind == "memory", Deadline: r.Deadline, MaxViolations: 20,
			SigFilter: func(sig string) bool { return strings.HasPrefix(sig, "C03:") }}
		res := explore.Explore(cfg, c14RealBody(rr.kind, rr.start, 2))
		seen := map[string]bool{}
		var keep []explore.Violation
		for _, v := range res.Violations {
			if strings.HasPrefix(v.Sig, "C03:") && !seen[v.Sig] {
				seen[v.Sig] = true
				keep = append(keep, v)
			}
		}
		res.Violations = keep
		r.AddExplore(res, "preemptions <= 2 at any synchronisation / transport point", time.Since(t0).Seconds())
	}
}
