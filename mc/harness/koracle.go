package harness

import (
	"bytes"
	"encoding/base64"
	"fmt"
	"sort"
	"strings"

	ae "github.com/godaddy/asherah/go/appencryption"

	"asherahverif/doubles"
	"asherahverif/ref"
	"asherahverif/shim/vclock"
)

// kViol is one oracle failure, attributed to a property.
type kViol struct {
	Prop string `json:"prop"`
	Sig  string `json:"sig"`
	Msg  string `json:"msg"`
}

type kJudge struct {
	viols    []kViol
	counters map[string]int
}

func (j *kJudge) fail(prop, sig, format string, a ...interface{}) {
	j.viols = append(j.viols, kViol{Prop: prop, Sig: sig, Msg: fmt.Sprintf(format, a...)})
}

func (j *kJudge) count(name string) { j.counters[name]++ }

func (w *kWorld) row(id string, created int64) *doubles.Row { return w.ms.Rows[id][created] }

func isIKRole(r string) bool { return strings.HasPrefix(r, "IK:") }
func isSKRole(r string) bool { return strings.HasPrefix(r, "SK/") }

// judgeStep evaluates the step oracles of every K-based property on the operation that just ran.
func (w *kWorld) judgeStep(st *kStep, j *kJudge) {
	if st.Panic != "" {
		j.fail("C01", "panic:"+st.Kind, "operation %s panicked: %s", st.Op, st.Panic)
		j.fail("C04", "panic:"+st.Kind, "operation %s panicked: %s", st.Op, st.Panic)
		j.fail("C09", "panic:"+st.Kind, "operation %s panicked: %s", st.Op, st.Panic)
		return
	}
	t := st.T
	skID := ref.SystemKeyID("s", "p", "")
	if (st.Kind == "dec" || st.Kind == "enc") && len(w.logs) > st.logFrom {
		needles := map[string][]byte{}
		for kid, b := range w.reg.KeyBytes {
			needles[fmt.Sprintf("key#%d", kid)] = b
		}
		if st.Rec != nil && len(st.Rec.Payload) >= 8 {
			needles["payload"] = st.Rec.Payload
		}
		if nn, line := scanLogLines(w.logs[st.logFrom:], needles); nn != "" {
			j.fail("C03", "plaintext-leak-log:"+st.Kind, "%s: plaintext bytes of %s were printed into a log line: %.120q", st.Op, nn, line)
		}
	}
	switch st.Kind {
	case "dec":
		j.count("dec")
		ikRow := w.row(st.Rec.DRR.Key.ParentKeyMeta.ID, st.Rec.IKCreated)
		if ikRow != nil && ikRow.Rec.Revoked {
			j.count("dec-of-revoked-ik")
		}
		if t > st.Rec.IKCreated+E {
			j.count("dec-of-expired-ik")
		}
		if st.Rec.ByF != st.F.idx {
			j.count("dec-cross-process")
		}
		revokedChain := ikRow != nil && ikRow.Rec.Revoked
		if ikRow != nil && ikRow.Rec.ParentKeyMeta != nil {
			if sk := w.row(skID, ikRow.Rec.ParentKeyMeta.Created); sk != nil && sk.Rec.Revoked {
				revokedChain = true
			}
		}
		if revokedChain {
			j.count("C05.dec-under-revoked-chain")
		}
		if st.Err != nil {
			j.fail("C01", "dec-error:"+errClass(st.Err), "%s at t=%d of a record written under IK %d failed: %v", st.Op, t, st.Rec.IKCreated, st.Err)
			if revokedChain {
				// C05: records written under a revoked key remain decryptable
				j.fail("C05", "revoked-key-record-undecryptable:"+errClass(st.Err), "%s at t=%d: a record written under the revoked key chain (IK %d) no longer decrypts: %v", st.Op, t, st.Rec.IKCreated, st.Err)
			}
		} else if !bytes.Equal(st.Out, st.Rec.Payload) {
			j.fail("C01", "dec-wrong-bytes", "%s returned %x, want %x", st.Op, st.Out, st.Rec.Payload)
		}
	case "enc":
		j.count("enc")
		if st.Err != nil {
			if strings.HasPrefix(st.Err.Error(), "C01:") {
				sig := "payload-modified"
				if strings.Contains(st.Err.Error(), "shares storage") {
					sig = "record-aliases-payload-buffer"
					// C03: the caller's later plaintext writes land inside a record that was already handed out
					j.fail("C03", sig, "%s: %v", st.Op, st.Err)
				}
				j.fail("C01", sig, "%s: %v", st.Op, st.Err)
				return
			}
			j.fail("C04", "enc-error:"+errClass(st.Err), "%s at t=%d failed although metastore and KMS are healthy: %v", st.Op, t, st.Err)
			j.fail("C05", "enc-error:"+errClass(st.Err), "%s at t=%d failed although metastore and KMS are healthy: %v", st.Op, t, st.Err)
			return
		}
		drr := st.Rec.DRR
		ikID := ref.IntermediateKeyID(st.Part, "s", "p", "")
		if drr.Key.ParentKeyMeta.ID != ikID {
			j.fail("C03", "wrong-ik-id", "%s names IK id %q, want %q", st.Op, drr.Key.ParentKeyMeta.ID, ikID)
		}
		ikRow := w.row(ikID, st.Rec.IKCreated)
		// ---- C02-like sanity inside K: the named chain exists
		if ikRow == nil {
			j.fail("C01", "ik-not-persisted", "%s returned a record naming IK %s/%d which is not in the metastore", st.Op, ikID, st.Rec.IKCreated)
			return
		}
		// ---- C04
		if t > st.Rec.IKCreated+E {
			j.fail("C04", "expired-ik-used", "%s at t=%d used IK created %d (age %d > lifetime %d)", st.Op, t, st.Rec.IKCreated, t-st.Rec.IKCreated, E)
		}
		for _, r := range w.ms.SortedRows() {
			if st.rowsBefore[rowKey(r.ID, r.Created)] || !strings.HasPrefix(r.ID, "_IK_") {
				continue
			}
			j.count("ik-created")
			if r.Rec.ParentKeyMeta == nil {
				j.fail("C04", "ik-without-parent", "IK row %s/%d written without parent meta", r.ID, r.Created)
				continue
			}
			if t > r.Rec.ParentKeyMeta.Created+E {
				j.fail("C04", "ik-created-under-expired-sk", "%s at t=%d created IK %s/%d under SK %d which expired at %d", st.Op, t, r.ID, r.Created, r.Rec.ParentKeyMeta.Created, r.Rec.ParentKeyMeta.Created+E)
			}
			if sk := w.row(skID, r.Rec.ParentKeyMeta.Created); sk != nil && sk.Rec.Revoked && sk.RevokedAt+2*R < t {
				j.fail("C05", "ik-created-under-revoked-sk", "%s at t=%d created IK %s/%d under SK %d revoked at %d", st.Op, t, r.ID, r.Created, sk.Created, sk.RevokedAt)
			}
		}
		if ikRow.Rec.ParentKeyMeta != nil {
			skc := ikRow.Rec.ParentKeyMeta.Created
			if t > skc+E {
				j.count("C04.parent-sk-expired")
			}
			if t > skc+E+R {
				j.count("C04.parent-sk-expired-more-than-R")
				cls := cacheFillClass(st)
				j.fail("C04", "ik-of-expired-sk-used:"+cls, "%s at t=%d used IK %d whose parent SK %d expired at %d, more than one revoke-check interval (%d) ago (operations on this key cache before: %v)", st.Op, t, st.Rec.IKCreated, skc, skc+E, R, st.CacheOpsBefore)
			}
			// ---- C05 (parent)
			if sk := w.row(skID, skc); sk != nil && sk.Rec.Revoked {
				j.count("C05.parent-sk-revoked")
				if t > sk.RevokedAt+2*R {
					j.count("C05.parent-sk-revoked-more-than-2R")
					// classify: was this key cache only ever filled through exact (decrypt) lookups so far?
					cls := cacheFillClass(st)
					j.fail("C05", "ik-of-revoked-sk-used:"+cls, "%s at t=%d used IK %d whose parent SK %d was revoked at %d, more than two intervals ago (operations on this key cache before: %v)", st.Op, t, st.Rec.IKCreated, skc, sk.RevokedAt, st.CacheOpsBefore)
				}
			}
		}
		// ---- C05 (the IK itself)
		if ikRow.Rec.Revoked {
			j.count("C05.ik-revoked")
			if t > ikRow.RevokedAt+R {
				j.count("C05.ik-revoked-more-than-R")
				j.fail("C05", "revoked-ik-used", "%s at t=%d used IK %d revoked at %d, more than one interval (%d) ago", st.Op, t, st.Rec.IKCreated, ikRow.RevokedAt, R)
			}
		}
		w.judgeEnvelope(st, j)
	case "restart":
		gen := st.F.allTF[len(st.F.allTF)-2]
		for _, s := range gen.Secrets {
			if !s.Closed {
				j.fail("C09", "leak-after-close"+w.skLeakClass(s.KeyID), "secret#%d of %s (key %s) still live after all its sessions and the factory were closed", s.ID, gen.Name, w.roleOf(s.KeyID))
				break
			}
			if s.CloseCalls != 1 {
				j.fail("C09", "closed-more-than-once", "secret#%d of %s closed %d times", s.ID, gen.Name, s.CloseCalls)
				break
			}
		}
		j.count("restart")
	}
	// ---- C09: per-call release
	if st.F != nil && st.secFrom >= 0 && (st.Kind == "enc" || st.Kind == "dec") {
		roles := w.roles()
		for _, s := range st.F.tf.Secrets[st.secFrom:] {
			r := roles[s.KeyID]
			if r == "" && !s.Closed {
				j.fail("C09", "drk-not-released", "%s returned while data-key secret#%d is still live", st.Op, s.ID)
			}
		}
		if st.F.spec.NoCache {
			j.count("C09.nocache-op")
			if live := st.F.tf.Live(); len(live) > 0 {
				j.fail("C09", "nocache-retains"+w.skLeakClass(live[0].KeyID), "%s with caching disabled returned with %d live secrets (first: secret#%d %s)", st.Op, len(live), live[0].ID, roles[live[0].KeyID])
			}
		}
		for _, tf := range st.F.allTF {
			for _, s := range tf.Secrets {
				if s.AfterClose > 0 {
					j.fail("C09", "touched-after-close", "secret#%d of %s (%s) accessed %d times after Close", s.ID, tf.Name, roles[s.KeyID], s.AfterClose)
				}
			}
		}
	}
}

func (w *kWorld) roleOf(kid int) string {
	if r := w.roles()[kid]; r != "" {
		return r
	}
	return "DRK"
}

// judgeEnvelope is the C03 monitor over the AEAD / KMS / allocator calls of one encrypt.
func (w *kWorld) judgeEnvelope(st *kStep, j *kJudge) {
	roles := w.roles()
	role := func(kid int) string {
		if kid == 0 {
			return "data"
		}
		if r := roles[kid]; r != "" {
			return r
		}
		return "DRK"
	}
	calls := st.F.aead.Calls[st.aeadFrom:]
	payloadEnc := 0
	drkKey := 0
	for _, c := range calls {
		if c.Op != "Encrypt" || c.Err {
			continue
		}
		kr, dr := role(c.KeyID), role(c.DataKeyID)
		switch {
		case dr == "data":
			payloadEnc++
			drkKey = c.KeyID
			if kr != "DRK" {
				j.fail("C03", "payload-under-"+strings.SplitN(kr, "/", 2)[0], "%s encrypted payload bytes under %s instead of a data key", st.Op, kr)
			}
		case dr == "DRK":
			if isSKRole(kr) {
				// a freshly generated IK that was not (yet) stored is indistinguishable from a data key here
				continue
			}
			want := fmt.Sprintf("IK:%s/%d", st.Part, st.Rec.IKCreated)
			if kr != want {
				j.fail("C03", "drk-under-wrong-key", "%s wrapped a data key under %s, want %s", st.Op, kr, want)
			}
		case isIKRole(dr):
			if !isSKRole(kr) {
				j.fail("C03", "ik-under-wrong-key", "%s wrapped %s under %s, want the service's system key", st.Op, dr, kr)
			}
		case isSKRole(dr):
			j.fail("C03", "sk-under-aead", "%s passed system key %s to the AEAD (under %s); only the KMS may wrap it", st.Op, dr, kr)
		}
	}
	if payloadEnc != 1 {
		j.fail("C03", "payload-encryptions", "%s performed %d payload encryptions, want exactly 1", st.Op, payloadEnc)
		return
	}
	// the data key: created by CreateRandom in this very call, used once, wrapped once, released
	created := false
	for _, s := range st.F.tf.Secrets[st.secFrom:] {
		if s.KeyID == drkKey {
			created = s.Kind == "random"
			if !s.Closed {
				j.fail("C03", "drk-not-closed", "%s returned with its data key still live", st.Op)
			}
		}
	}
	if !created {
		j.fail("C03", "drk-not-fresh", "%s encrypted the payload under key#%d (%s) which was not generated by this call", st.Op, drkKey, role(drkKey))
	}
	uses, wraps := 0, 0
	type kn struct {
		k int
		n string
	}
	seen := map[kn]string{}
	for _, f := range w.F {
		for gi, sp := range f.allAEAD() {
			for _, c := range sp.Calls {
				if c.Op != "Encrypt" || c.Err {
					continue
				}
				if c.KeyID == drkKey {
					uses++
				}
				if c.DataKeyID == drkKey {
					wraps++
				}
				k := kn{c.KeyID, c.Nonce}
				if prev, dup := seen[k]; dup {
					j.fail("C03", "nonce-reuse", "(key %s, nonce %x) used twice: %s and F%d#%d call %d", role(c.KeyID), c.Nonce, prev, f.idx+1, gi+1, c.Seq)
				}
				seen[k] = fmt.Sprintf("F%d#%d call %d", f.idx+1, gi+1, c.Seq)
			}
		}
	}
	j.count("C03.enc-checked")
	if len(seen) > 8 {
		j.count("C03.histories-with-more-than-8-encryptions")
	}
	if uses != 1 {
		j.fail("C03", "drk-reused", "data key of %s was the key of %d encryptions in this history, want 1", st.Op, uses)
	}
	if wraps != 1 {
		j.fail("C03", "drk-wrapped-n", "data key of %s was wrapped %d times, want 1", st.Op, wraps)
	}
	// KMS: only system keys are handed over for wrapping
	for _, in := range w.kms.EncryptInputs {
		if r := role(w.reg.IDOf(in)); !isSKRole(r) {
			// a system key whose store lost the race has no row; accept any 32-byte random key that is not a row key of another class
			if isIKRole(r) {
				j.fail("C03", "kms-wraps-non-sk", "KMS.EncryptKey received %s", r)
			}
		}
	}
	// leak scan: no >= 8-byte window of any key or of the long payload in records, rows, KMS ciphertext requests, log lines
	var hay [][]byte
	var names []string
	add := func(n string, b []byte) { hay = append(hay, b); names = append(names, n) }
	add("returned DRR data", st.Rec.DRR.Data)
	add("returned DRR key", st.Rec.DRR.Key.EncryptedKey)
	for _, r := range w.ms.SortedRows() {
		add("row "+rowKey(r.ID, r.Created), r.Rec.EncryptedKey)
	}
	for _, l := range w.logs[st.logFrom:] {
		add("log line", []byte(l))
	}
	needles := map[string][]byte{}
	for kid, b := range w.reg.KeyBytes {
		needles[role(kid)+fmt.Sprintf("#%d", kid)] = b
	}
	if len(st.Payload) >= 8 {
		needles["payload"] = st.Payload
	}
	for nn, nb := range needles {
		for i := 0; i+8 <= len(nb); i += 4 {
			win := nb[i : i+8]
			for hi, h := range hay {
				if bytes.Contains(h, win) {
					j.fail("C03", "plaintext-leak", "%d bytes of %s appear in %s", 8, nn, names[hi])
				}
				// formatted forms in log lines
				if names[hi] == "log line" && (bytes.Contains(h, []byte(fmt.Sprintf("%x", win))) || bytes.Contains(h, []byte(fmt.Sprint(win)[1:len(fmt.Sprint(win))-1]))) {
					j.fail("C03", "plaintext-leak-log", "%s printed into a log line", nn)
				}
			}
		}
	}
}

func (f *kFactory) allAEAD() []*doubles.SpyAEAD { return f.aeads }

// judgeState evaluates the invariants that must hold in every quiescent state.
func (w *kWorld) judgeState(reach map[*doubles.TrackSecret]string, j *kJudge) {
	// ---- C01: every catalogued record decrypts in a fresh process, by the SDK and by the reference
	table := w.table()
	reps := w.classReps()
	w.ms.Mute, w.kms.Mute = true, true
	fresh := doubles.NewTrackFactoryShared(w.reg, "fresh")
	ff := ae.NewSessionFactory(&ae.Config{Service: "s", Product: "p", Policy: SpecDefault.Build()}, w.ms, w.kms, doubles.NewSpyAEAD(fresh), ae.WithSecretFactory(fresh))
	for _, rec := range reps {
		j.count("C01.records-rechecked")
		out, err := ref.Decrypt(table, w.kms.Unwrap, toRefRow(rec.DRR))
		if err != nil || !bytes.Equal(out, rec.Payload) {
			j.fail("C01", "ref-cannot-decrypt", "reference decryptor over the metastore snapshot at t=%d cannot decrypt record #%d of %s (IK %d): %v", vclock.Unix(), rec.Seq, rec.Part, rec.IKCreated, err)
		}
		var sout []byte
		var serr error
		pan := safe(func() {
			s, e := ff.GetSession(rec.Part)
			if e != nil {
				serr = e
				return
			}
			sout, serr = s.Decrypt(ctx, *cloneDRR(rec.DRR))
			s.Close()
		})
		if pan != "" || serr != nil || !bytes.Equal(sout, rec.Payload) {
			j.fail("C01", "fresh-factory-cannot-decrypt", "a fresh factory at t=%d cannot decrypt record #%d of %s (IK %d): %v %s", vclock.Unix(), rec.Seq, rec.Part, rec.IKCreated, serr, pan)
		}
	}
	ff.Close()
	w.ms.Mute, w.kms.Mute = false, false
	for _, s := range fresh.Secrets {
		if !s.Closed {
			j.fail("C09", "leak-fresh-factory", "fresh factory left secret#%d live after session and factory close", s.ID)
			break
		}
	}
	// ---- C09: live == reachable-and-open; at most one live secret per key and cache owner
	roles := w.roles()
	for _, f := range w.F {
		perRole := map[string]int{}
		perOwner := map[string]int{}
		for _, s := range f.tf.Secrets {
			if s.Closed {
				continue
			}
			r := roles[s.KeyID]
			if r == "" {
				r = "DRK"
			}
			if _, ok := reach[s]; !ok {
				j.fail("C09", "live-unreachable:"+strings.SplitN(strings.SplitN(r, "/", 2)[0], ":", 2)[0]+w.skLeakClass(s.KeyID), "secret#%d of %s (%s) is live but no cache, session or factory references it any more: leaked", s.ID, f.tf.Name, r)
				continue
			}
			perRole[r]++
			perOwner[reach[s]+" "+r]++
		}
		for r, n := range perOwner {
			if n > 1 {
				j.fail("C09", "duplicate-live-key", "%s holds %d live secrets for one key in one cache (%s)", f.tf.Name, n, r)
			}
		}
		if f.spec.IKPolicy != "" && f.spec.SharedIK {
			n := 0
			for r, c := range perRole {
				if isIKRole(r) {
					n += c
				}
			}
			j.count("C09.bounded-cache-states")
			if n > f.spec.IKSize {
				j.fail("C09", "over-capacity", "%s: %d live intermediate keys with cache capacity %d", f.tf.Name, n, f.spec.IKSize)
			}
		}
		if f.spec.SKPolicy != "" {
			n := 0
			for r, c := range perRole {
				if isSKRole(r) {
					n += c
				}
			}
			if n > f.spec.SKSize {
				j.fail("C09", "over-capacity-sk", "%s: %d live system keys with cache capacity %d", f.tf.Name, n, f.spec.SKSize)
			}
		}
	}
	for s, path := range reach {
		if s.Closed {
			j.fail("C09", "reachable-closed", "destroyed secret#%d (%s) is still referenced from %s", s.ID, roles[s.KeyID], path)
		}
	}
	if bad := w.ms.CheckImmutable(); len(bad) > 0 {
		j.fail("C01", "metastore-row-mutated", "stored rows changed: %v", bad)
	}
}

func contains(xs []string, x string) bool {
	for _, y := range xs {
		if y == x {
			return true
		}
	}
	return false
}

// skLeakClass tags a leaked system-key secret with the call pattern of the recorded C09
// finding (see leakClass) when that pattern occurred in this history.
func (w *kWorld) skLeakClass(kid int) string {
	if !isSKRole(w.roleOf(kid)) {
		return ""
	}
	return leakClass(w.ms)
}

// scanLogLines looks for >= 8-byte windows of any needle (key bytes, payload) in log lines: raw, hex (both cases),
// base64 and the decimal list fmt prints for a byte slice. It returns the name of the first needle found.
func scanLogLines(lines []string, needles map[string][]byte) (string, string) {
	if len(lines) == 0 {
		return "", ""
	}
	names := make([]string, 0, len(needles))
	for n := range needles {
		names = append(names, n)
	}
	sort.Strings(names)
	for _, l := range lines {
		h := []byte(l)
		hl := bytes.ToLower(h)
		for _, nn := range names {
			nb := needles[nn]
			if len(nb) < 8 {
				continue
			}
			// whole-value encodings
			for _, enc := range []string{base64.StdEncoding.EncodeToString(nb), base64.URLEncoding.EncodeToString(nb), base64.RawStdEncoding.EncodeToString(nb)} {
				if len(enc) >= 11 && bytes.Contains(h, []byte(enc[:len(enc)-len(enc)%4-4])) {
					return nn, l
				}
			}
			for i := 0; i+8 <= len(nb); i += 4 {
				win := nb[i : i+8]
				dec := fmt.Sprint(win)
				if bytes.Contains(h, win) || bytes.Contains(hl, []byte(fmt.Sprintf("%x", win))) || bytes.Contains(h, []byte(dec[1:len(dec)-1])) {
					return nn, l
				}
			}
		}
	}
	return "", ""
}


// cacheFillClass says how the cache entry that served an encrypt got its current state, from the operations this key
// cache has served so far (most recent first): put there by an exact (id, created) lookup of a decrypt and never validated
// through the latest path since ("cache-filled-by-decrypt-only": the recorded finding), re-read by an exact lookup
// ("after-exact-reload": the defect repaired by 49001f2 if it ever comes back), or validated through the latest path
// ("after-latest-load").
func cacheFillClass(st *kStep) string {
	if !(st.LongLived || st.F.spec.SharedIK) {
		return "after-latest-load"
	}
	for i := len(st.CacheOpsBefore) - 1; i >= 0; i-- {
		switch st.CacheOpsBefore[i] {
		case "dec+insert":
			return "cache-filled-by-decrypt-only"
		case "dec+reload":
			return "after-exact-reload"
		case "enc+latest":
			return "after-latest-load"
		}
	}
	return "after-latest-load"
}
