package harness

import (
	"bytes"
	"fmt"
	ae "github.com/godaddy/asherah/go/appencryption"
	"io"
	"strings"
	"time"

	"github.com/godaddy/asherah/go/securememory"
	"github.com/godaddy/asherah/go/securememory/memguard"
	"github.com/godaddy/asherah/go/securememory/protectedmemory"

	"asherahverif/doubles"
	"asherahverif/explore"
	"asherahverif/shim/vrand"
	"asherahverif/shim/vsched"
)

// ---------------------------------------------------------------------------------
// C12: every placement of one or two failing memory primitives (and a failing random
// source) within scripts of New / CreateRandom / WithBytes / WithBytesFunc / Close.
// ---------------------------------------------------------------------------------

type c12Script struct {
	name  string
	impl  string // protected | memguard
	steps []string
}

var c12Secret = []byte("c12-secret-key-material-0123456789ab")

func c12Factory(impl string, mc *doubles.ShadowMemcall) securememory.SecretFactory {
	if impl == "memguard" {
		return memguard.VerifNewFactory(mc)
	}
	return protectedmemory.VerifNewFactory(mc)
}

func (sc c12Script) body(c *explore.Ctx) {
	mc := doubles.NewShadowMemcall()
	mc.Secret = c12Secret
	f := c12Factory(sc.impl, mc)
	inUse0 := securememory.InUseCounter.Count()
	expectInUse := int64(0)
	var sec securememory.Secret
	var orig []byte
	closedOK := false
	cleanupFaultDuringCreate := false
	randFailed := false
	closeAttempted := false
	faultsIn := func(from int) (n int, ops []string) {
		for _, cl := range mc.Calls[from:] {
			if cl.Fault {
				n++
				ops = append(ops, cl.Op)
			}
		}
		return
	}
	checkInUse := func(after string) {
		if got := securememory.InUseCounter.Count() - inUse0; got != expectInUse {
			c.Failf("inuse-unbalanced", "after %s the in-use counter moved by %d, want %d (created and not yet successfully closed secrets); calls: %s", after, got, expectInUse, c12Calls(mc))
		}
	}
	mc.Armed = true
	var outcome []string
	for _, step := range sc.steps {
		from := len(mc.Calls)
		pagesFrom := len(mc.List)
		switch step {
		case "new", "rand", "rand-readfail":
			var s securememory.Secret
			var err error
			src := append([]byte(nil), c12Secret...)
			pan := safe(func() {
				switch step {
				case "new":
					s, err = f.New(src)
				case "rand":
					if pf, ok := f.(*protectedmemory.SecretFactory); ok {
						// the random source is one more primitive that may fail
						s, err = pf.VerifCreateRandom(32, func(b []byte) (int, error) {
							if mc.Armed && vsched.Choose(2, "rand.Read") != 0 {
								randFailed = true
								return 0, io.ErrUnexpectedEOF
							}
							return vrand.Read(b)
						})
					} else {
						s, err = f.CreateRandom(32)
					}
				case "rand-readfail":
					if pf, ok := f.(*protectedmemory.SecretFactory); ok {
						s, err = pf.VerifCreateRandom(32, func(b []byte) (int, error) { return 0, io.ErrUnexpectedEOF })
					} else {
						s, err = f.CreateRandom(32)
					}
				}
			})
			if pan != "" {
				c.Failf("panic:create", "%s panicked: %s", step, pan)
				return
			}
			nf, ops := faultsIn(from)
			failed := nf > 0 || randFailed || step == "rand-readfail" && sc.impl == "protected"
			randFailed = false
			switch {
			case failed && err == nil:
				c.Failf("degraded-secret", "%s: primitives %v failed during creation but the caller got a secret and no error", step, ops)
			case !failed && (err != nil || s == nil):
				c.Failf("create-failed-without-fault", "%s failed without any injected fault: %v", step, err)
			}
			if err != nil {
				outcome = append(outcome, step+"=err")
				cleanupFault := false
				for _, o := range ops {
					if o == "Unlock" || o == "Free" {
						cleanupFault = true
					}
				}
				if cleanupFault {
					cleanupFaultDuringCreate = true
				}
				// no page of the failed creation may stay mapped or locked (unless the clean-up primitive itself failed)
				if !cleanupFault {
					for _, p := range mc.List[pagesFrom:] {
						if p.Foreign {
							continue
						}
						if p.Mapped || p.Locked {
							c.Failf("failed-create-leaves-page", "%s failed (%v) but page %d is still mapped=%v locked=%v; calls: %s", step, ops, p.ID, p.Mapped, p.Locked, c12Calls(mc))
						}
					}
				}
				if step == "new" && !allZero(src) && nf > 0 && sc.impl == "protected" {
					// informational only: C10 covers the source buffer
				}
			} else {
				sec = s
				orig = append([]byte(nil), c12Secret...)
				if step != "new" {
					orig = nil
				}
				expectInUse++
				outcome = append(outcome, step+"=ok")
			}
			checkInUse(step)
		case "with", "withfunc", "nested", "reader", "witherr", "withfuncpanic":
			if sec == nil {
				continue
			}
			protBefore := -9
			if p := c12PageOf(mc, sec); p != nil {
				protBefore = p.Prot
			}
			called := 0
			var seen []byte
			protIn := -9
			var err error
			pan := safe(func() {
				cb := func(b []byte) error {
					called++
					seen = append([]byte(nil), b...)
					protIn = mc.ProtOf(b)
					return nil
				}
				switch step {
				case "witherr":
					err = sec.WithBytes(func(b []byte) error { cb(b); return errC11Callback })
				case "withfuncpanic":
					_, err = sec.WithBytesFunc(func(b []byte) ([]byte, error) { cb(b); panic(c11Panic) })
				case "with":
					err = sec.WithBytes(cb)
				case "withfunc":
					_, err = sec.WithBytesFunc(func(b []byte) ([]byte, error) { return nil, cb(b) })
				case "nested":
					err = sec.WithBytes(func(b []byte) error {
						return sec.WithBytes(cb)
					})
				case "reader":
					buf := make([]byte, 8)
					_, err = sec.NewReader().Read(buf)
					if err == io.EOF {
						err = nil
					}
					// (the reader copies inside the SDK: no callback of ours to observe; it ran iff the secret was opened)
					opened := err == nil
					for _, cl := range mc.Calls[from:] {
						if strings.HasPrefix(cl.Op, "Protect(ReadOnly") && !cl.Fault {
							opened = true
						}
					}
					if opened {
						called, protIn = 1, doubles.ProtRO
					}
					seen = nil
				}
			})
			if step == "withfuncpanic" && called > 0 {
				// the callback's own panic comes out to the caller; the secret must be released all the same
				if !strings.Contains(pan, c11Panic) {
					c.Failf("callback-panic-swallowed", "%s: the callback panicked but the caller saw panic=%q err=%v", step, pan, err)
				}
				pan = ""
				if p := c12PageOf(mc, sec); p != nil && p.Mapped && p.Prot == doubles.ProtRO {
					if n, _ := faultsIn(from); n == 0 {
						c.Failf("panicking-reader-leaves-readable", "%s: after the callback panicked the page is still readable (the reader was never released); calls: %s", step, c12Calls(mc))
					}
				}
				outcome = append(outcome, step+"=panicked")
				checkInUse(step)
				continue
			}
			if pan != "" {
				c.Failf("panic:access", "%s panicked: %s", step, pan)
				return
			}
			nf, ops := faultsIn(from)
			if step == "witherr" && called > 0 {
				// the callback's error is reported (possibly together with a failing release), never swallowed
				if err == nil || (nf == 0 && !strings.Contains(err.Error(), errC11Callback.Error())) {
					c.Failf("callback-error-lost", "%s: the callback returned an error but WithBytes returned %v (faults %v)", step, err, ops)
				}
				if nf == 0 {
					if p := c12PageOf(mc, sec); p != nil && p.Mapped && p.Prot != doubles.ProtNone {
						c.Failf("failing-reader-leaves-accessible", "%s: after the callback failed the page has protection %d", step, p.Prot)
					}
				}
				outcome = append(outcome, step+"=cberr")
				checkInUse(step)
				continue
			}
			switch {
			case closedOK:
				// the secret was closed successfully earlier in the script: every access must be refused
				if err == nil || called > 0 {
					c.Failf("access-after-close", "%s after a successful Close ran the callback (err=%v)", step, err)
				}
				outcome = append(outcome, step+"=refused")
			case nf == 0 && closeAttempted && err != nil && strings.Contains(err.Error(), "already been destroyed"):
				// a Close was started (and failed on an injected fault): refusing readers from then on is within the statement,
				// which only asks that the Close can be retried
				outcome = append(outcome, step+"=refused-after-failed-close")
			case nf == 0:
				if err != nil || called == 0 {
					c.Failf("access-failed-without-fault", "%s failed without fault: %v", step, err)
				}
				if called > 0 && protIn != doubles.ProtRO {
					c.Failf("callback-page-not-readonly", "%s: inside the callback the page protection is %d, want read-only", step, protIn)
				}
				if orig != nil && seen != nil && !bytes.Equal(seen, orig) {
					c.Failf("reader-wrong-bytes", "%s: callback saw different bytes", step)
				}
				outcome = append(outcome, step+"=ok")
			default:
				if err == nil {
					c.Failf("access-fault-swallowed", "%s: %v failed but WithBytes reported success", step, ops)
				}
				outcome = append(outcome, step+"=err")
			}
			// a failed attempt to open leaves the page inaccessible (when the open itself failed before any callback ran)
			if nf > 0 && called == 0 && protBefore == doubles.ProtNone {
				if p := c12PageOf(mc, sec); p != nil && p.Mapped && p.Prot != doubles.ProtNone {
					c.Failf("failed-open-leaves-readable", "%s: opening failed (%v) but the page is left with protection %d", step, ops, p.Prot)
				}
			}
			checkInUse(step)
		case "close":
			if sec == nil {
				continue
			}
			var err error
			closeAttempted = true
			pan := safe(func() { err = sec.Close() })
			if pan != "" {
				c.Failf("panic:close", "Close panicked: %s", pan)
				return
			}
			nf, ops := faultsIn(from)
			if nf == 0 && err != nil {
				c.Failf("close-failed-without-fault", "Close failed without fault: %v", err)
			}
			if nf > 0 && err == nil && !closedOK {
				c.Failf("close-fault-swallowed", "Close: %v failed but Close reported success", ops)
			}
			if err == nil && !closedOK {
				closedOK = true
				expectInUse--
			}
			outcome = append(outcome, fmt.Sprintf("close=%v", err == nil))
			checkInUse(step)
		}
	}
	// ---- recovery with faults stopped
	mc.Armed = false
	if sec != nil && !closedOK {
		var got []byte
		err := sec.WithBytes(func(b []byte) error { got = append([]byte(nil), b...); return nil })
		closing := false
		for _, cl := range mc.Calls {
			if strings.HasPrefix(cl.Op, "Protect(ReadWrite)") || cl.Op == "Unlock" || cl.Op == "Free" {
				closing = true // a Close was attempted: later reads legitimately report "destroyed"
			}
		}
		if err == nil && orig != nil && !bytes.Equal(got, orig) {
			// whatever happened before (also a Close that failed half-way): a read that reports success hands out the secret,
			// never other (wiped) bytes
			c.Failf("degraded-read-after-fault", "after the faults stopped WithBytes reports success but hands out other bytes than the secret's (wiped by a Close that failed?); calls: %s", c12Calls(mc))
		}
		if !closing {
			if err != nil {
				c.Failf("not-usable-after-fault", "after the faults stopped WithBytes fails: %v; calls: %s", err, c12Calls(mc))
			} else if orig != nil && !bytes.Equal(got, orig) {
				c.Failf("bytes-changed-after-fault", "after the faults stopped the secret's bytes differ")
			}
		}
		if err := sec.Close(); err != nil {
			c.Failf("close-not-retryable", "after the faults stopped Close still fails: %v; calls: %s", err, c12Calls(mc))
		} else {
			expectInUse--
		}
		checkInUse("recovery")
	}
	// wipe precedes unlock: reported by the shadow as events
	for _, ev := range mc.Events {
		c.Failf("shadow:"+strings.SplitN(ev, " ", 3)[0]+"-"+eventClass(ev), "%s; calls: %s", ev, c12Calls(mc))
	}
	// nothing of a successfully closed / failed-and-cleaned secret remains
	if !cleanupFaultDuringCreate {
		for _, p := range mc.List {
			if p.Foreign {
				continue
			}
			if p.Mapped || p.Locked {
				c.Failf("page-left-behind", "page %d still mapped=%v locked=%v at the end; calls: %s", p.ID, p.Mapped, p.Locked, c12Calls(mc))
			}
		}
	}
	c.Outcome(strings.Join(outcome, ","))
	_ = vrand.Draws
	_ = vsched.Active
}

func eventClass(ev string) string {
	switch {
	case strings.Contains(ev, "unlocked while"):
		return "unlocked-with-secret"
	case strings.Contains(ev, "freed twice"):
		return "double-free"
	case strings.Contains(ev, "unmapped"):
		return "protect-unmapped"
	}
	return "event"
}

func c12PageOf(mc *doubles.ShadowMemcall, s securememory.Secret) *doubles.ShadowPage {
	// the most recently allocated live page belongs to the only secret of the script
	for i := len(mc.List) - 1; i >= 0; i-- {
		if mc.List[i].Mapped {
			return mc.List[i]
		}
	}
	return nil
}

func c12Calls(mc *doubles.ShadowMemcall) string {
	var sb strings.Builder
	for _, cl := range mc.Calls {
		f := ""
		if cl.Fault {
			f = "!FAIL"
		}
		fmt.Fprintf(&sb, "%s%s ", cl.Op, f)
	}
	return sb.String()
}

func c12Scripts(thorough bool) []c12Script {
	var out []c12Script
	for _, impl := range []string{"protected", "memguard"} {
		out = append(out,
			c12Script{name: impl + "/new", impl: impl, steps: []string{"new"}},
			c12Script{name: impl + "/rand", impl: impl, steps: []string{"rand"}},
			c12Script{name: impl + "/new-with-close", impl: impl, steps: []string{"new", "with", "close"}},
			c12Script{name: impl + "/new-nested-close", impl: impl, steps: []string{"new", "nested", "close"}},
			c12Script{name: impl + "/new-close-close", impl: impl, steps: []string{"new", "close", "close"}},
			c12Script{name: impl + "/rand-withfunc-with-close", impl: impl, steps: []string{"rand", "withfunc", "with", "close"}},
			c12Script{name: impl + "/new-close-with-close", impl: impl, steps: []string{"new", "close", "with", "close"}},
			c12Script{name: impl + "/new-witherr-with-close", impl: impl, steps: []string{"new", "witherr", "with", "close"}},
			c12Script{name: impl + "/new-withfuncpanic-with-close", impl: impl, steps: []string{"new", "withfuncpanic", "with", "close"}},
			c12Script{name: impl + "/new-close-reader-withfunc", impl: impl, steps: []string{"new", "close", "reader", "withfunc"}},
		)
		if thorough {
			out = append(out,
				c12Script{name: impl + "/new-reader-with-close", impl: impl, steps: []string{"new", "reader", "with", "close"}},
				c12Script{name: impl + "/new-with-with-close-close", impl: impl, steps: []string{"new", "with", "with", "close", "close"}},
				c12Script{name: impl + "/rand-nested-withfunc-reader-close", impl: impl, steps: []string{"rand", "nested", "withfunc", "reader", "close"}},
			)
		}
	}
	return out
}

// CheckC12 enumerates single faults and pairs (thorough: triples) over every script.
func CheckC12(r *Report) {
	r.Level = "fault_enumeration"
	r.Rule = "scripts of New / CreateRandom / WithBytes / nested WithBytes / WithBytesFunc / NewReader.Read / Close (+ Close again) on both secure-memory implementations over a shadow page table; every placement of up to D failing primitives (Alloc, Lock, Protect x3, Unlock, Free) by call index, plus a failing random source; followed by a fault-free recovery (read, Close); non-trivial = executions with at least one injected fault"
	dev := 2
	if r.Thorough() {
		dev = 4
	}
	for _, sc := range c12Scripts(r.Thorough()) {
		sc := sc
		t0 := time.Now()
		cfg := explore.Config{Name: "C12/" + sc.name, Preemptions: 0, Deviations: dev, Deadline: r.Deadline, MaxViolations: 100}
		res := explore.Explore(cfg, sc.body)
		seen := map[string]bool{}
		var keep []explore.Violation
		for _, v := range res.Violations {
			if !seen[v.Sig] {
				seen[v.Sig] = true
				keep = append(keep, v)
			}
		}
		res.Violations = keep
		r.AddExplore(res, fmt.Sprintf("deviations <= %d, all placements", dev), time.Since(t0).Seconds())
		r.DistinctNontrivial += res.Executions - 1
	}
	c12Sched(r)
	r.Rule += " || PLUS schedules: a reader inside its callback and a Close waiting for it, every interleaving (preemption bound 2) x every placement of 1 (thorough 2) failing primitive: nobody is left blocked, a retried Close succeeds, nothing stays mapped or locked"
}

// ---------------------------------------------------------------------------------
// C12 (schedules): faults while another goroutine is waiting. A reader is inside its callback, a Close is parked
// waiting for it, and any primitive of the reader's release or of the Close may fail (deviation-bounded) under every
// interleaving up to the preemption bound. Nobody may be left blocked: a failed release still lets the waiting Close
// go on, and once the faults stop a retried Close succeeds and leaves nothing mapped or locked.
// ---------------------------------------------------------------------------------

type c12SchedScenario struct {
	name    string
	impl    string
	threads []string // reader | closer
}

func (sc c12SchedScenario) body(c *explore.Ctx) {
	vsched.BeginQuiet()
	mc := doubles.NewShadowMemcall()
	mc.Secret = c12Secret
	f := c12Factory(sc.impl, mc)
	inUse0 := securememory.InUseCounter.Count()
	sec, err := f.New(append([]byte(nil), c12Secret...))
	if err != nil {
		panic(err)
	}
	vsched.EndQuiet()
	mc.Armed = true
	done := make([]bool, len(sc.threads))
	errs := make([]error, len(sc.threads))
	pans := make([]string, len(sc.threads))
	for i, kind := range sc.threads {
		i, kind := i, kind
		vsched.GoNamed(kind, func() {
			pans[i] = safe(func() {
				if kind == "reader" {
					errs[i] = sec.WithBytes(func(b []byte) error {
						vsched.Yield("reader.inside")
						return nil
					})
				} else {
					errs[i] = sec.Close()
				}
			})
			done[i] = true
		})
	}
	vsched.Quiesce()
	mc.Armed = false
	nf := 0
	for _, cl := range mc.Calls {
		if cl.Fault {
			nf++
		}
	}
	if nf > 0 {
		c.Outcome("faulted")
	} else {
		c.Outcome("no-fault")
	}
	for i, kind := range sc.threads {
		if pans[i] != "" {
			c.Failf("panic", "%s panicked: %s", kind, pans[i])
			return
		}
		if !done[i] {
			c.Failf("blocked-after-fault", "thread %d (%s) never returned (%d injected faults); blocked: %v; calls: %s", i, kind, nf, vsched.Blocked(), c12Calls(mc))
			return
		}
		if nf == 0 && errs[i] != nil && !(kind == "reader" && strings.Contains(errs[i].Error(), "already been destroyed")) {
			c.Failf("error-without-fault", "%s failed without any injected fault: %v", kind, errs[i])
		}
	}
	// recovery: with the faults stopped a (retried) Close succeeds and nothing is left behind
	vsched.BeginQuiet()
	defer vsched.EndQuiet()
	if err := sec.Close(); err != nil {
		c.Failf("close-not-retryable", "after the faults stopped Close still fails: %v; calls: %s", err, c12Calls(mc))
		return
	}
	for _, p := range mc.List {
		if !p.Foreign && (p.Mapped || p.Locked) {
			c.Failf("page-left-behind", "page %d still mapped=%v locked=%v after the final Close; calls: %s", p.ID, p.Mapped, p.Locked, c12Calls(mc))
		}
	}
	if got := securememory.InUseCounter.Count() - inUse0; got != 0 {
		c.Failf("inuse-unbalanced", "the in-use counter moved by %d over a created and closed secret; calls: %s", got, c12Calls(mc))
	}
	for _, ev := range mc.Events {
		c.Failf("shadow:"+eventClass(ev), "%s; calls: %s", ev, c12Calls(mc))
	}
}

func c12SchedScenarios(thorough bool) []c12SchedScenario {
	var out []c12SchedScenario
	for _, impl := range []string{"protected", "memguard"} {
		out = append(out, c12SchedScenario{impl + "/reader-closer", impl, []string{"reader", "closer"}})
		if thorough {
			out = append(out,
				c12SchedScenario{impl + "/2readers-closer", impl, []string{"reader", "reader", "closer"}},
				c12SchedScenario{impl + "/reader-2closers", impl, []string{"reader", "closer", "closer"}})
		}
	}
	return out
}

func c12Sched(r *Report) {
	for _, sc := range c12SchedScenarios(r.Thorough()) {
		sc := sc
		if !r.TimeLeft() {
			r.Exhaustive = false
			r.Caps = append(r.Caps, "C12s/"+sc.name+": not started (time budget)")
			continue
		}
		dev, pre := 1, 2
		if r.Thorough() {
			dev = 2
		}
		t0 := time.Now()
		cfg := explore.Config{Name: "C12s/" + sc.name, Preemptions: pre, Deviations: dev, Deadline: r.Deadline, MaxViolations: 50}
		res := explore.Explore(cfg, sc.body)
		seen := map[string]bool{}
		var keep []explore.Violation
		for _, v := range res.Violations {
			if !seen[v.Sig] {
				seen[v.Sig] = true
				keep = append(keep, v)
			}
		}
		res.Violations = keep
		r.AddExplore(res, fmt.Sprintf("preemptions <= %d, failing primitives <= %d", pre, dev), time.Since(t0).Seconds())
		r.DistinctNontrivial += res.Outcomes["faulted"]
	}
}

func c12SchedReplayBody(h string) explore.Body {
	for _, sc := range c12SchedScenarios(true) {
		if "C12s/"+sc.name == h {
			return sc.body
		}
	}
	return nil
}

// ---------------------------------------------------------------------------------
// C10 over the real secret factories: the buffer handed to SecretFactory.New is the caller's plaintext copy of a key and
// is wiped by the factory (both implementations, shadow page table); and an encrypt + cold decrypt through the SDK with
// the real factories leaves no unwrapped key readable in the buffers the KMS / AEAD handed out.
// ---------------------------------------------------------------------------------

func c10RealFactories(r *Report) {
	n := 0
	bad := func(sig, impl, format string, a ...interface{}) {
		r.Viols = append(r.Viols, Viol{Property: "C10", Harness: "C10/real-factories", Sig: sig + "@" + impl, Msg: fmt.Sprintf(format, a...), Ops: []string{impl}})
	}
	for _, impl := range []string{"protected", "memguard"} {
		for _, size := range []int{1, 32, 4097} {
			mc := doubles.NewShadowMemcall()
			f := c12Factory(impl, mc)
			src := make([]byte, size)
			for i := range src {
				src[i] = byte(i%251 + 1)
			}
			sec, err := f.New(src)
			n++
			if err != nil {
				bad("factory-new-failed", impl, "New(%d bytes) failed without fault: %v", size, err)
				continue
			}
			if !allZero(src) {
				bad("secret-source-not-wiped-by-factory", impl, "%s factory: the %d-byte buffer handed to New still holds the key after New returned", impl, size)
			}
			sec.Close()
		}
		// through the SDK
		resetGlobals()
		mc := doubles.NewShadowMemcall()
		f := c12Factory(impl, mc)
		ms, kms := doubles.NewSpyMetastore(), doubles.NewSpyKMS()
		mk := func() (*ae.SessionFactory, *doubles.SpyAEAD) {
			a := doubles.NewSpyAEAD(nil)
			return ae.NewSessionFactory(&ae.Config{Service: "s", Product: "p", Policy: SpecDefault.Build()}, ms, kms, a, ae.WithSecretFactory(f)), a
		}
		f1, _ := mk()
		s1, _ := f1.GetSession("A")
		pay := []byte("payload-for-the-real-factories")
		rec, err := s1.Encrypt(ctx, append([]byte(nil), pay...))
		n++
		if err != nil {
			bad("encrypt-failed", impl, "encrypt over the real %s factory failed: %v", impl, err)
			continue
		}
		f2, a2 := mk()
		s2, _ := f2.GetSession("A")
		kmsFrom := len(kms.Returned)
		out, err := s2.Decrypt(ctx, *cloneDRR(rec))
		n++
		if err != nil || !bytes.Equal(out, pay) {
			bad("decrypt-failed", impl, "cold decrypt over the real %s factory failed: %v", impl, err)
		}
		for i, b := range kms.Returned[kmsFrom:] {
			if !allZero(b) {
				bad("kms-plaintext-not-wiped", impl, "the plaintext system key returned by KMS.DecryptKey (call %d) is still readable after Decrypt returned (real %s factory)", kmsFrom+i, impl)
			}
		}
		for i, b := range a2.Returned {
			if len(b) == 0 || bytes.Equal(b, pay) {
				continue
			}
			if !allZero(b) {
				bad("unwrapped-key-not-wiped", impl, "plaintext key returned by AEAD.Decrypt (unwrap %d, %d bytes) is still readable after Decrypt returned (real %s factory)", i, len(b), impl)
			}
		}
		s1.Close()
		s2.Close()
		f1.Close()
		f2.Close()
	}
	r.Runs = append(r.Runs, RunInfo{Name: "C10/real-factories", Executions: n, States: n, Transitions: int64(n), Exhaustive: true,
		Bound: "both secret factories over the shadow page table: New(1 / 32 / 4097 bytes) wipes its source; encrypt + cold decrypt through the SDK"})
	r.Evaluations += n
	r.TracesValidated += n
	r.Transitions += int64(n)
}
