package harness

import (
	"bytes"
	"fmt"
	"sort"
	"strings"
	"time"

	awsv1 "github.com/aws/aws-sdk-go/aws"
	sessv1 "github.com/aws/aws-sdk-go/aws/session"

	ae "github.com/godaddy/asherah/go/appencryption"
	"github.com/godaddy/asherah/go/appencryption/pkg/persistence"
	dynv1 "github.com/godaddy/asherah/go/appencryption/plugins/aws-v1/persistence"
	dynv2 "github.com/godaddy/asherah/go/appencryption/plugins/aws-v2/dynamodb/metastore"

	"asherahverif/doubles"
	"asherahverif/explore"
	"asherahverif/shim/vsched"
)

// ---------------------------------------------------------------------------------
// C13: every metastore implementation against a reference table: explicit-state BFS over
// Store / Load / LoadLatest histories; the state is the table, so the reachable space of
// the small universe is closed.
// ---------------------------------------------------------------------------------

type c13Impl struct {
	// allowErrors: the backend injects transient read failures; a read may then fail, but a read that
	// succeeds must still be exact (a completed Store is visible to every later successful read)
	allowErrors bool
	name   string
	build  func() (ae.Metastore, string) // returns the metastore and the region suffix it must report
	suffix string
}

// c13Unsupported is filled by the builders with a getter of the fake's "outside my grammar" list.
var c13Unsupported func() []string

func c13Impls(thorough bool) []c13Impl {
	impls := []c13Impl{
		{name: "memory", build: func() (ae.Metastore, string) { return persistence.NewMemoryMetastore(), "" }},
	}
	for _, d := range []struct {
		dialect string
		t       persistence.SQLMetastoreDBType
	}{{"mysql", persistence.MySQL}, {"postgres", persistence.Postgres}, {"oracle", persistence.Oracle}} {
		d := d
		impls = append(impls, c13Impl{name: "sql-" + d.dialect, build: func() (ae.Metastore, string) {
			eng := doubles.NewFakeSQL(d.dialect)
			c13Unsupported = func() []string { return eng.Unsupported }
			return persistence.NewSQLMetastore(eng.Open(), persistence.WithSQLMetastoreDBType(d.t)), ""
		}})
	}
	// the default db type without an explicit option must speak MySQL
	impls = append(impls, c13Impl{name: "sql-default", build: func() (ae.Metastore, string) {
		eng := doubles.NewFakeSQL("mysql")
		c13Unsupported = func() []string { return eng.Unsupported }
		return persistence.NewSQLMetastore(eng.Open()), ""
	}})
	type dv struct {
		table  string
		suffix bool
	}
	variants := []dv{{"", false}, {"CustomKeys", true}}
	if thorough {
		variants = []dv{{"", false}, {"", true}, {"CustomKeys", false}, {"CustomKeys", true}}
	}
	for _, v := range variants {
		v := v
		tname := v.table
		if tname == "" {
			tname = "EncryptionKey"
		}
		impls = append(impls, c13Impl{name: fmt.Sprintf("dynamodb-v1-table=%s-suffix=%v", tname, v.suffix), build: func() (ae.Metastore, string) {
			fake := doubles.NewFakeDynamo("us-west-2", tname)
			c13Unsupported = func() []string { return fake.Unsupported }
			sess := c13Session()
			m := dynv1.NewDynamoDBMetastore(sess, dynv1.WithDynamoDBRegionSuffix(v.suffix), dynv1.WithTableName(v.table), dynv1.WithClient(doubles.DynamoV1{F: fake}))
			want := ""
			if v.suffix {
				want = "us-west-2"
			}
			return m, want
		}})
		impls = append(impls, c13Impl{name: fmt.Sprintf("dynamodb-v2-table=%s-suffix=%v", tname, v.suffix), build: func() (ae.Metastore, string) {
			fake := doubles.NewFakeDynamo("us-west-2", tname)
			c13Unsupported = func() []string { return fake.Unsupported }
			m, err := dynv2.NewDynamoDB(dynv2.WithDynamoDBClient(doubles.DynamoV2{F: fake}), dynv2.WithTableName(v.table), dynv2.WithRegionSuffix(v.suffix))
			if err != nil {
				panic(err)
			}
			want := ""
			if v.suffix {
				want = "us-west-2"
			}
			return m, want
		}})
	}
	for _, ver := range []string{"v1", "v2"} {
		ver := ver
		impls = append(impls, c13Impl{name: "dynamodb-" + ver + "-transient-read-errors", allowErrors: true, build: func() (ae.Metastore, string) {
			fake := doubles.NewFakeDynamo("us-west-2", "EncryptionKey")
			fake.FailReads = 1
			c13Unsupported = func() []string { return fake.Unsupported }
			if ver == "v1" {
				return dynv1.NewDynamoDBMetastore(c13Session(), dynv1.WithClient(doubles.DynamoV1{F: fake})), ""
			}
			m, err := dynv2.NewDynamoDB(dynv2.WithDynamoDBClient(doubles.DynamoV2{F: fake}))
			if err != nil {
				panic(err)
			}
			return m, ""
		}})
	}
	// a result set that breaks while it is fetched: the read may fail, but must not report "no such record"
	impls = append(impls, c13Impl{name: "sql-mysql-fetch-errors", allowErrors: true, build: func() (ae.Metastore, string) {
		eng := doubles.NewFakeSQL("mysql")
		eng.FailFetch = true
		c13Unsupported = func() []string { return eng.Unsupported }
		return persistence.NewSQLMetastore(eng.Open(), persistence.WithSQLMetastoreDBType(persistence.MySQL)), ""
	}})
	// the deprecated constructors / options in pkg/persistence forward to the aws-v1 plugin: same contract
	impls = append(impls, c13Impl{name: "dynamodb-deprecated-pkg-persistence-table=LegacyKeys-suffix=true", build: func() (ae.Metastore, string) {
		fake := doubles.NewFakeDynamo("us-west-2", "LegacyKeys")
		c13Unsupported = func() []string { return fake.Unsupported }
		m := persistence.NewDynamoDBMetastore(c13Session(), persistence.WithDynamoDBRegionSuffix(true), persistence.WithTableName("LegacyKeys"), persistence.WithClient(doubles.DynamoV1{F: fake}))
		return m, "us-west-2"
	}})
	return impls
}

var c13Sess *sessv1.Session

// c13Session builds the (offline) AWS session once: it only carries the region.
func c13Session() *sessv1.Session {
	if c13Sess == nil {
		c13Sess = sessv1.Must(sessv1.NewSession(&awsv1.Config{Region: awsv1.String("us-west-2")}))
	}
	return c13Sess
}

type c13Key struct {
	id      string
	created int64
}

var c13AllBytes = func() []byte {
	b := make([]byte, 256)
	for i := range b {
		b[i] = byte(i)
	}
	return b
}()

// c13Variant builds the record content of variant v for a slot.
func c13Variant(v int, k c13Key) *ae.EnvelopeKeyRecord {
	r := &ae.EnvelopeKeyRecord{ID: k.id, Created: k.created}
	switch v {
	case 0: // IK-like
		r.EncryptedKey = []byte(fmt.Sprintf("wrapped-ik-%s-%d", k.id, k.created))
		r.ParentKeyMeta = &ae.KeyMeta{ID: "_SK_svc_prod", Created: k.created - 60}
	case 1: // SK-like, no parent
		r.EncryptedKey = []byte(fmt.Sprintf("{\"kms\":\"envelope-%d\"}", k.created))
	case 2: // revoked IK
		r.Revoked = true
		r.EncryptedKey = []byte{0, 1, 2, 0xff, 0xfe}
		r.ParentKeyMeta = &ae.KeyMeta{ID: "_SK_svc_prod_us-west-2", Created: 1}
	case 3: // every byte value, odd ids
		r.EncryptedKey = c13AllBytes
		r.ParentKeyMeta = &ae.KeyMeta{ID: "_SK_sérvice_\"quoted\"", Created: 1 << 40}
	}
	return r
}

func c13Equal(got *ae.EnvelopeKeyRecord, want *ae.EnvelopeKeyRecord) string {
	switch {
	case got == nil && want == nil:
		return ""
	case got == nil:
		return "got nothing, want a record"
	case want == nil:
		return fmt.Sprintf("got a record (created %d), want nothing", got.Created)
	}
	if got.Revoked != want.Revoked {
		return fmt.Sprintf("Revoked = %v, want %v", got.Revoked, want.Revoked)
	}
	if got.Created != want.Created {
		return fmt.Sprintf("Created = %d, want %d", got.Created, want.Created)
	}
	if !bytes.Equal(got.EncryptedKey, want.EncryptedKey) {
		return fmt.Sprintf("EncryptedKey differs (%d bytes vs %d)", len(got.EncryptedKey), len(want.EncryptedKey))
	}
	if (got.ParentKeyMeta == nil) != (want.ParentKeyMeta == nil) {
		return fmt.Sprintf("ParentKeyMeta presence = %v, want %v", got.ParentKeyMeta != nil, want.ParentKeyMeta != nil)
	}
	if got.ParentKeyMeta != nil && *got.ParentKeyMeta != *want.ParentKeyMeta {
		return fmt.Sprintf("ParentKeyMeta = %v, want %v", *got.ParentKeyMeta, *want.ParentKeyMeta)
	}
	return ""
}

type c13Op struct {
	kind    string // store | load | latest
	key     c13Key
	variant int
}

func (o c13Op) String() string {
	switch o.kind {
	case "store":
		return fmt.Sprintf("Store(%s,%d,v%d)", o.key.id, o.key.created, o.variant)
	case "load":
		return fmt.Sprintf("Load(%s,%d)", o.key.id, o.key.created)
	}
	return fmt.Sprintf("LoadLatest(%s)", o.key.id)
}

// c13Replay runs a history on a fresh instance and judges its last operation and the
// read-back of every slot afterwards; returns the reference table key.
func c13Replay(impl c13Impl, hist []c13Op, ids []string, stamps []int64) (string, []kViol) {
	var viols []kViol
	fail := func(sig, format string, a ...interface{}) {
		viols = append(viols, kViol{Prop: "C13", Sig: sig, Msg: fmt.Sprintf(format, a...)})
	}
	var ms ae.Metastore
	wantSuffix := ""
	if pan := safe(func() { ms, wantSuffix = impl.build() }); pan != "" {
		return "", []kViol{{Prop: "C13", Sig: "panic:build", Msg: pan}}
	}
	if rs, ok := ms.(interface{ GetRegionSuffix() string }); ok {
		if rs.GetRegionSuffix() != wantSuffix {
			fail("region-suffix", "GetRegionSuffix() = %q, want %q", rs.GetRegionSuffix(), wantSuffix)
		}
	} else if wantSuffix != "" {
		fail("region-suffix", "metastore does not report a region suffix")
	}
	ref := map[c13Key]*ae.EnvelopeKeyRecord{}
	latest := func(id string) *ae.EnvelopeKeyRecord {
		var best *ae.EnvelopeKeyRecord
		var bc int64
		for k, r := range ref {
			if k.id == id && (best == nil || k.created > bc) {
				best, bc = r, k.created
			}
		}
		return best
	}
	for i, op := range hist {
		last := i == len(hist)-1
		pan := safe(func() {
			switch op.kind {
			case "store":
				rec := c13Variant(op.variant, op.key)
				before := *rec
				ok, err := ms.Store(ctx, op.key.id, op.key.created, rec)
				_, exists := ref[op.key]
				if last {
					switch {
					case !exists && (!ok || err != nil):
						fail("store-rejected", "%v on an empty slot returned (%v, %v), want (true, nil)", op, ok, err)
					case exists && ok:
						fail("duplicate-reported-as-success", "%v on an occupied slot returned true", op)
					}
					if rec.Created != before.Created || rec.Revoked != before.Revoked || !bytes.Equal(rec.EncryptedKey, before.EncryptedKey) {
						fail("store-mutated-argument", "%v modified the caller's record", op)
					}
				}
				if !exists {
					ref[op.key] = c13Variant(op.variant, op.key)
				}
			case "load":
				got, err := ms.Load(ctx, op.key.id, op.key.created)
				if last {
					if err != nil {
						if !impl.allowErrors {
							fail("load-error", "%v failed: %v", op, err)
						}
					} else if d := c13Equal(got, ref[op.key]); d != "" {
						fail("load-mismatch", "%v: %s", op, d)
					}
				}
			case "latest":
				got, err := ms.LoadLatest(ctx, op.key.id)
				if last {
					if err != nil {
						if !impl.allowErrors {
							fail("loadlatest-error", "%v failed: %v", op, err)
						}
					} else if d := c13Equal(got, latest(op.key.id)); d != "" {
						fail("loadlatest-mismatch", "%v: %s", op, d)
					}
				}
			}
		})
		if pan != "" {
			fail("panic:"+op.kind, "%v panicked: %s", op, pan)
			break
		}
	}
	// read-your-writes / nothing changed: every slot and every id is read back after the last operation
	if len(viols) == 0 && len(hist) > 0 {
		pan := safe(func() {
			for _, id := range ids {
				for _, c := range stamps {
					k := c13Key{id, c}
					got, err := ms.Load(ctx, id, c)
					if err != nil {
						if !impl.allowErrors {
							fail("readback-error", "after %v: Load(%s,%d) failed: %v", hist[len(hist)-1], id, c, err)
						}
					} else if d := c13Equal(got, ref[k]); d != "" {
						fail("readback-mismatch", "after %v: Load(%s,%d): %s", hist[len(hist)-1], id, c, d)
					}
				}
				got, err := ms.LoadLatest(ctx, id)
				if err != nil {
					if !impl.allowErrors {
						fail("readback-error", "after %v: LoadLatest(%s) failed: %v", hist[len(hist)-1], id, err)
					}
				} else if d := c13Equal(got, latest(id)); d != "" {
					fail("readback-latest-mismatch", "after %v: LoadLatest(%s): %s", hist[len(hist)-1], id, d)
				}
			}
		})
		if pan != "" {
			fail("panic:readback", "read-back panicked: %s", pan)
		}
	}
	var ks []string
	for k, r := range ref {
		v := 0
		switch {
		case r.Revoked:
			v = 2
		case r.ParentKeyMeta == nil:
			v = 1
		case len(r.EncryptedKey) == 256:
			v = 3
		}
		ks = append(ks, fmt.Sprintf("%s/%d=v%d", k.id, k.created, v))
	}
	sort.Strings(ks)
	return strings.Join(ks, ";"), viols
}

func c13BFS(impl c13Impl, nStamps int, base int64, deadline time.Time) *KResult {
	t0 := time.Now()
	res := &KResult{Cfg: &KConfig{Name: impl.name}, Counters: map[string]int{}, Exhaustive: true}
	ids := []string{"_IK_k1_svc_prod", "_SK_svc_prod"}
	var stamps []int64
	for i := 0; i < nStamps; i++ {
		stamps = append(stamps, base+int64(i)*60)
	}
	var ops []c13Op
	for _, id := range ids {
		for _, c := range stamps {
			for v := 0; v < 4; v++ {
				ops = append(ops, c13Op{"store", c13Key{id, c}, v})
			}
		}
	}
	for _, id := range ids {
		for _, c := range stamps {
			ops = append(ops, c13Op{"load", c13Key{id, c}, 0})
		}
		ops = append(ops, c13Op{"latest", c13Key{id, 0}, 0})
	}
	seen := map[string]bool{"": true}
	res.States = 1
	frontier := [][]c13Op{{}}
	sigSeen := map[string]bool{}
	for depth := 0; len(frontier) > 0; depth++ {
		var next [][]c13Op
		for fi, h := range frontier {
			if fi%16 == 0 && !deadline.IsZero() && time.Now().After(deadline) {
				res.Cap = fmt.Sprintf("deadline at depth %d", depth+1)
				res.Exhaustive = false
				return res
			}
			for _, op := range ops {
				h2 := append(append([]c13Op{}, h...), op)
				c13Unsupported = nil
				key, viols := c13Replay(impl, h2, ids, stamps)
				res.Transitions++
				if c13Unsupported != nil {
					if u := c13Unsupported(); len(u) > 0 {
						// the implementation now emits a statement / expression the semantic fake does not understand:
						// that is a gap of the machinery, not evidence against the property
						res.Cap = "MACHINERY-GAP: the fake backend does not understand: " + u[0]
						res.Exhaustive = false
						return res
					}
				}
				for _, v := range viols {
					res.Counters["violating-transitions"]++
					sig := v.Sig + "@" + impl.name
					if !sigSeen[sig] {
						sigSeen[sig] = true
						var hs []string
						for _, o := range h2 {
							hs = append(hs, o.String())
						}
						res.Viols = append(res.Viols, Viol{Property: "C13", Harness: "C13/" + impl.name, Sig: sig, Msg: v.Msg, Ops: hs})
					}
				}
				if len(viols) > 0 {
					continue
				}
				if !seen[key] {
					seen[key] = true
					res.States++
					next = append(next, h2)
					if len(res.Samples) < 1 && len(h2) >= 3 {
						var hs []string
						for _, o := range h2 {
							hs = append(hs, o.String())
						}
						res.Samples = append(res.Samples, hs)
					}
				}
			}
		}
		res.DepthDone = depth + 1
		res.PerLevel = append(res.PerLevel, len(next))
		frontier = next
	}
	res.Counters["space-closed"] = 1
	res.Wall = time.Since(t0).Seconds()
	return res
}

// CheckC13 closes the table state space for every implementation.
func CheckC13(r *Report) {
	r.Rule = "breadth-first search over Store/Load/LoadLatest on 2 ids x N creation stamps (recent; and, for one implementation of each kind, all before the epoch / ending at zero) x 4 record variants (IK-like with parent meta, SK-like, revoked, all 256 byte values + non-ASCII parent id) for the in-memory, SQL (mysql ?, postgres $n, oracle :n over a semantic fake database/sql driver enforcing PRIMARY KEY(id, created)) and DynamoDB v1/v2 metastores (over a semantic fake that is eventually consistent unless ConsistentRead is set); state = table contents, explored until no new table is reachable; after every transition every slot and every id is read back and compared with the reference table; non-trivial = distinct tables"
	n := 2
	if r.Thorough() {
		n = 3
	}
	impls := c13Impls(r.Thorough())
	byName := map[string]c13Impl{}
	var names []string
	for _, im := range impls {
		byName[im.name] = im
		names = append(names, im.name)
	}
	// the same search over creation stamps before and at the epoch (negative, zero), for one implementation of each kind
	var edge []string
	for _, im := range impls {
		switch im.name {
		case "memory", "sql-mysql", "sql-postgres", "dynamodb-v1-table=EncryptionKey-suffix=false", "dynamodb-v2-table=EncryptionKey-suffix=false":
			edge = append(edge, im.name+"@pre-epoch", im.name+"@around-zero")
		}
	}
	names = append(names, edge...)
	names = append(names, "schedules")
	r.RunScenarios(names, func(r *Report, name string) {
		if name == "schedules" {
			c13Sched(r)
			return
		}
		base := int64(1700000040)
		implName := name
		if i := strings.Index(name, "@"); i >= 0 {
			implName = name[:i]
			base = -60 * int64(n) // all stamps negative
			if name[i:] == "@around-zero" {
				base = -60 * int64(n-1) // ..., -60, 0
			}
		}
		im := byName[implName]
		im.name = name
		kr := c13BFS(im, n, base, r.Deadline)
		r.AddK(kr, nil)
	})
	r.Rule += " || PLUS every interleaving of 2-3 concurrent Store calls for one (id, created) (and a concurrent reader) on the in-memory metastore: exactly one success, the winner's record is never replaced, reads are monotone"
}

// ---------------------------------------------------------------------------------
// C13 (schedules): the in-memory metastore is shared by goroutines; concurrent Stores of
// one (id, created) must still be insert-if-absent: exactly one reports success and its
// record is the one every later read returns.
// ---------------------------------------------------------------------------------

func c13SchedBody(nStores int, withReader bool) explore.Body {
	return func(c *explore.Ctx) {
		vsched.BeginQuiet()
		ms := persistence.NewMemoryMetastore()
		k := c13Key{"_IK_race_svc_prod", 1700000040}
		vsched.EndQuiet()
		oks := make([]bool, nStores)
		errs := make([]error, nStores)
		var seen []*ae.EnvelopeKeyRecord
		for i := 0; i < nStores; i++ {
			i := i
			vsched.GoNamed(fmt.Sprintf("store%d", i), func() {
				oks[i], errs[i] = ms.Store(ctx, k.id, k.created, c13Variant(i%4, k))
			})
		}
		if withReader {
			vsched.GoNamed("reader", func() {
				for n := 0; n < 2; n++ {
					r, _ := ms.Load(ctx, k.id, k.created)
					seen = append(seen, r)
					r2, _ := ms.LoadLatest(ctx, k.id)
					seen = append(seen, r2)
				}
			})
		}
		vsched.Quiesce()
		if b := vsched.Blocked(); len(b) > 0 {
			c.Failf("blocked", "threads blocked: %v", b)
			return
		}
		winners := 0
		win := -1
		for i, ok := range oks {
			if errs[i] != nil {
				c.Failf("store-error", "Store returned %v", errs[i])
			}
			if ok {
				winners++
				win = i
			}
		}
		if winners != 1 {
			c.Failf("concurrent-store-winners", "%d concurrent Store calls for one (id, created) reported success %d times, want exactly once", nStores, winners)
		}
		final, _ := ms.Load(ctx, k.id, k.created)
		if winners == 1 {
			if d := c13Equal(final, c13Variant(win%4, k)); d != "" {
				c.Failf("winner-overwritten", "the record of the Store that reported success was replaced: %s", d)
			}
		}
		// reads are monotone: once a record was seen, every later read returns the same record
		var first *ae.EnvelopeKeyRecord
		for _, r := range seen {
			if r == nil {
				if first != nil {
					c.Failf("read-went-back", "a read returned nothing after an earlier read had returned the record")
				}
				continue
			}
			if first == nil {
				first = r
			}
			if d := c13Equal(r, first); d != "" {
				c.Failf("record-changed-between-reads", "two reads of one (id, created) returned different records: %s", d)
			}
		}
		if first != nil {
			if d := c13Equal(final, first); d != "" {
				c.Failf("record-changed-after-read", "a record that was already visible to a reader was replaced: %s", d)
			}
		}
		c.Outcome(fmt.Sprintf("winner=%d", win))
	}
}

func c13Sched(r *Report) {
	for _, sc := range []struct {
		name   string
		stores int
		reader bool
	}{{"memory-2-stores", 2, false}, {"memory-2-stores-reader", 2, true}, {"memory-3-stores", 3, false}} {
		if sc.stores > 2 && !r.Thorough() {
			continue
		}
		t0 := time.Now()
		cfg := explore.Config{Name: "C13s/" + sc.name, Preemptions: -1, Deviations: 0, HBCache: true, Deadline: r.Deadline, MaxViolations: 5}
		res := explore.Explore(cfg, c13SchedBody(sc.stores, sc.reader))
		seen := map[string]bool{}
		var keep []explore.Violation
		for _, v := range res.Violations {
			if !seen[v.Sig] {
				seen[v.Sig] = true
				keep = append(keep, v)
			}
		}
		res.Violations = keep
		r.AddExplore(res, "all interleavings (unbounded preemptions, happens-before caching)", time.Since(t0).Seconds())
	}
	c13DynSched(r)
}

// ---------------------------------------------------------------------------------
// C13 (schedules over the DynamoDB plugins): concurrent callers on ONE metastore object. Two goroutines read different
// ids (LoadLatest, Load) while a third stores; the transport (the fake client) is a scheduling point that reads the
// request only when it is delivered. Every read returns the record of the id that was asked for.
// ---------------------------------------------------------------------------------

func c13DynBuild(ver string) (ae.Metastore, *doubles.FakeDynamo) {
	fake := doubles.NewFakeDynamo("us-west-2", "EncryptionKey")
	switch ver {
	case "v1":
		return dynv1.NewDynamoDBMetastore(c13Session(), dynv1.WithClient(doubles.DynamoV1{F: fake})), fake
	case "deprecated":
		return persistence.NewDynamoDBMetastore(c13Session(), persistence.WithClient(doubles.DynamoV1{F: fake})), fake
	}
	m, err := dynv2.NewDynamoDB(dynv2.WithDynamoDBClient(doubles.DynamoV2{F: fake}))
	if err != nil {
		panic(err)
	}
	return m, fake
}

func c13DynSchedBody(ver string) explore.Body {
	return func(c *explore.Ctx) {
		vsched.BeginQuiet()
		ms, fake := c13DynBuild(ver)
		ka := []c13Key{{"_IK_a_svc_prod", 1700000040}, {"_IK_a_svc_prod", 1700000100}}
		kb := []c13Key{{"_IK_b_svc_prod", 1700000040}, {"_IK_b_svc_prod", 1700000160}}
		for i, k := range append(append([]c13Key{}, ka...), kb...) {
			if ok, err := ms.Store(ctx, k.id, k.created, c13Variant(i%3, k)); !ok || err != nil {
				panic(fmt.Sprintf("C13 set-up store: %v %v", ok, err))
			}
		}
		want := func(k c13Key, i int) *ae.EnvelopeKeyRecord { return c13Variant(i%3, k) }
		vsched.EndQuiet()
		type res struct {
			what string
			got  *ae.EnvelopeKeyRecord
			err  error
			want *ae.EnvelopeKeyRecord
		}
		var results [3][]res
		reader := func(slot int, ks []c13Key, base int) func() {
			return func() {
				r, err := ms.LoadLatest(ctx, ks[1].id)
				results[slot] = append(results[slot], res{"LoadLatest(" + ks[1].id + ")", r, err, want(ks[1], base+1)})
				r2, err2 := ms.Load(ctx, ks[0].id, ks[0].created)
				results[slot] = append(results[slot], res{fmt.Sprintf("Load(%s,%d)", ks[0].id, ks[0].created), r2, err2, want(ks[0], base)})
			}
		}
		vsched.GoNamed("readerA", reader(0, ka, 0))
		vsched.GoNamed("readerB", reader(1, kb, 2))
		kc := c13Key{"_IK_c_svc_prod", 1700000040}
		vsched.GoNamed("storer", func() {
			ok, err := ms.Store(ctx, kc.id, kc.created, c13Variant(0, kc))
			if !ok || err != nil {
				results[2] = append(results[2], res{"Store(c)", nil, fmt.Errorf("Store of a new key returned %v, %v", ok, err), nil})
			}
		})
		kd := c13Key{"_IK_d_svc_prod", 1700000100}
		vsched.GoNamed("storer2", func() {
			ok, err := ms.Store(ctx, kd.id, kd.created, c13Variant(2, kd))
			if !ok || err != nil {
				results[2] = append(results[2], res{"Store(d)", nil, fmt.Errorf("Store of a new key returned %v, %v", ok, err), nil})
			}
		})
		vsched.Quiesce()
		if b := vsched.Blocked(); len(b) > 0 {
			c.Failf("blocked", "threads blocked: %v", b)
			return
		}
		for _, chk := range []struct {
			k c13Key
			v int
		}{{kc, 0}, {kd, 2}} {
			got, err := ms.Load(ctx, chk.k.id, chk.k.created)
			if err != nil {
				c.Failf("concurrent-store-lost", "Load(%s) after two concurrent Stores of different keys: %v", chk.k.id, err)
			} else if d := c13Equal(got, c13Variant(chk.v, chk.k)); d != "" {
				c.Failf("concurrent-store-lost", "two concurrent Stores of different keys both reported success but %s/%d is not stored as written: %s", chk.k.id, chk.k.created, d)
			}
		}
		if len(fake.Unsupported) > 0 {
			c.Failf("MACHINERY-GAP", "request outside the fake's grammar: %v", fake.Unsupported)
			return
		}
		for _, rs := range results {
			for _, x := range rs {
				switch {
				case x.err != nil:
					c.Failf("concurrent-read-error", "%s failed while other callers used the same metastore: %v", x.what, x.err)
				case x.want != nil:
					if d := c13Equal(x.got, x.want); d != "" {
						c.Failf("concurrent-read-wrong-record", "%s returned another record while other callers used the same metastore: %s", x.what, d)
					}
				}
			}
		}
		if r, _ := ms.Load(ctx, kc.id, kc.created); r == nil {
			c.Failf("stored-record-missing", "the record stored concurrently is not visible afterwards")
		}
	}
}

func c13DynSched(r *Report) {
	for _, ver := range []string{"v1", "v2", "deprecated"} {
		if !r.TimeLeft() {
			r.Exhaustive = false
			r.Caps = append(r.Caps, "C13s/dynamodb-"+ver+": not started (time budget)")
			continue
		}
		t0 := time.Now()
		cfg := explore.Config{Name: "C13s/dynamodb-" + ver + "-2-readers-1-storer", Preemptions: 2, Deviations: 0, HBCache: false, Deadline: r.Deadline, MaxViolations: 5}
		res := explore.Explore(cfg, c13DynSchedBody(ver))
		seen := map[string]bool{}
		var keep []explore.Violation
		for _, v := range res.Violations {
			if !seen[v.Sig] {
				seen[v.Sig] = true
				keep = append(keep, v)
			}
		}
		res.Violations = keep
		r.AddExplore(res, "2 readers + 2 storers, preemptions <= 2 at the transport (requests are read when they are delivered)", time.Since(t0).Seconds())
	}
}
