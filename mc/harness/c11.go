package harness

import (
	"errors"
	"bufio"
	"bytes"
	"fmt"
	"os"
	"strconv"
	"strings"
	"time"
	"unsafe"

	"github.com/godaddy/asherah/go/securememory"
	"github.com/godaddy/asherah/go/securememory/memguard"
	"github.com/godaddy/asherah/go/securememory/protectedmemory"

	"asherahverif/doubles"
	"asherahverif/explore"
	"asherahverif/shim/vsched"
)

// ---------------------------------------------------------------------------------
// C11(b): every interleaving of R readers and C closers (+ an IsClosed poller) on one
// secret of each implementation, over the shadow page table.
// ---------------------------------------------------------------------------------

type c11Scenario struct {
	name    string
	impl    string
	threads []string // reader | nested | closer | poller | late-reader
}

var c11Bytes = []byte("c11-original-secret-bytes-0123456789")

const c11Panic = "c11-callback-panic"

var errC11Callback = errors.New("c11-callback-error")

func (sc c11Scenario) body(c *explore.Ctx) {
	vsched.BeginQuiet()
	mc := doubles.NewShadowMemcall()
	mc.Secret = c11Bytes
	f := c12Factory(sc.impl, mc)
	sec, err := f.New(append([]byte(nil), c11Bytes...))
	if err != nil {
		panic(err)
	}
	vsched.EndQuiet()
	inCallback := 0
	closeReturned := 0
	type obs struct {
		kind string
		err  error
		pan  string
		startedAfterClose bool
		ranCallback       bool
		done bool
	}
	results := make([]*obs, len(sc.threads))
	fail := func(sig, format string, a ...interface{}) { c.Failf(sig, format, a...) }
	callback := func(o *obs, inner func() error) func(b []byte) error {
		return func(b []byte) error {
			o.ranCallback = true
			inCallback++
			defer func() { inCallback-- }()
			if p := mc.ProtOf(b); p != doubles.ProtRO {
				fail("callback-page-not-readable", "a reader callback runs while the page protection is %d (no-access/unmapped would be a SIGSEGV in production)", p)
			}
			if !bytes.Equal(b, c11Bytes) {
				fail("reader-wrong-bytes", "reader saw %q", b)
			}
			// let other threads run while this reader is inside
			vsched.Yield("reader.inside")
			if p := mc.ProtOf(b); p != doubles.ProtRO {
				fail("page-flipped-under-reader", "the page protection changed to %d while a reader callback was still running", p)
			}
			if !bytes.Equal(b, c11Bytes) {
				fail("bytes-changed-under-reader", "secret bytes changed (wiped?) while a reader callback was still running")
			}
			if inner != nil {
				return inner()
			}
			return nil
		}
	}
	for ti, kind := range sc.threads {
		ti, kind := ti, kind
		o := &obs{kind: kind}
		results[ti] = o
		vsched.GoNamed(kind, func() {
			o.pan = safe(func() {
				switch kind {
				case "reader":
					o.startedAfterClose = closeReturned > 0
					o.err = sec.WithBytes(callback(o, nil))
				case "nested":
					o.startedAfterClose = closeReturned > 0
					o.err = sec.WithBytes(callback(o, func() error {
						_, e := sec.WithBytesFunc(func(b []byte) ([]byte, error) { return nil, callback(o, nil)(b) })
						return e
					}))
				case "panicker":
					// a reader whose callback panics (the caller recovers above the SDK): the secret must be released all the same
					o.startedAfterClose = closeReturned > 0
					o.err = sec.WithBytes(callback(o, func() error { panic(c11Panic) }))
				case "panicker-func":
					o.startedAfterClose = closeReturned > 0
					_, o.err = sec.WithBytesFunc(func(b []byte) ([]byte, error) {
						return nil, callback(o, func() error { panic(c11Panic) })(b)
					})
				case "err-reader":
					o.startedAfterClose = closeReturned > 0
					o.err = sec.WithBytes(callback(o, func() error { return errC11Callback }))
				case "closer":
					o.err = sec.Close()
					if inCallback > 0 {
						fail("close-returned-with-reader-inside", "Close returned while %d reader callbacks were still running", inCallback)
					}
					closeReturned++
				case "poller":
					sec.IsClosed()
					sec.IsClosed()
				}
			})
			o.done = true
		})
	}
	vsched.Quiesce()
	closers := 0
	var outcome []string
	for ti, o := range results {
		switch {
		case !o.done:
			fail("blocked", "thread %d (%s) never finished; blocked: %v", ti, o.kind, vsched.Blocked())
		case strings.HasPrefix(o.kind, "panicker"):
			// the callback's own panic must come out unchanged (or the access was refused because the secret is closed)
			if o.pan != "" && !strings.Contains(o.pan, c11Panic) {
				fail("panic", "thread %d (%s) panicked with something else than the callback's panic: %s", ti, o.kind, o.pan)
			}
			if o.pan == "" && o.ranCallback {
				fail("callback-panic-swallowed", "the callback of thread %d panicked but %s returned normally (%v)", ti, o.kind, o.err)
			}
		case o.pan != "":
			fail("panic", "thread %d (%s) panicked: %s", ti, o.kind, o.pan)
		}
		if o.kind == "err-reader" {
			if o.ranCallback && o.err != errC11Callback && (o.err == nil || !strings.Contains(o.err.Error(), errC11Callback.Error())) {
				fail("callback-error-lost", "the callback returned an error but WithBytes returned %v", o.err)
			}
			if !o.ranCallback && o.err == nil {
				fail("callback-skipped", "WithBytes returned nil without running the callback")
			}
		}
		if o.kind == "closer" {
			closers++
			if o.err != nil {
				fail("close-error", "Close returned %v", o.err)
			}
		}
		if o.kind == "reader" || o.kind == "nested" {
			if o.err != nil && !strings.Contains(o.err.Error(), "already been destroyed") {
				fail("reader-error", "reader failed with %v", o.err)
			}
			if o.startedAfterClose && o.err == nil {
				fail("read-after-close", "an access that started after Close had returned succeeded")
			}
			if o.err == nil && !o.ranCallback {
				fail("callback-skipped", "WithBytes returned nil without running the callback")
			}
			if o.err == nil {
				outcome = append(outcome, "read")
			} else {
				outcome = append(outcome, "refused")
			}
		}
	}
	// late access after everything finished
	vsched.BeginQuiet()
	if closers > 0 {
		if err := sec.WithBytes(func([]byte) error { return nil }); err == nil {
			fail("access-after-close", "WithBytes after Close returned succeeded")
		}
		if !sec.IsClosed() {
			fail("not-closed", "IsClosed is false after Close returned")
		}
		for _, p := range mc.List {
			if !p.Foreign && (p.Mapped || p.Locked) {
				fail("page-left-after-close", "page %d still mapped=%v locked=%v after Close", p.ID, p.Mapped, p.Locked)
			}
		}
	} else {
		// idle secret: pages must be no-access
		for _, p := range mc.List {
			if p.Mapped && p.Prot != doubles.ProtNone {
				fail("idle-page-accessible", "no reader is inside but page %d has protection %d", p.ID, p.Prot)
			}
		}
		sec.Close()
	}
	vsched.EndQuiet()
	for _, ev := range mc.Events {
		fail("shadow:"+eventClass(ev), "%s; calls: %s", ev, c12Calls(mc))
	}
	c.Outcome(strings.Join(outcome, ","))
}

func c11Scenarios(thorough bool) []c11Scenario {
	var out []c11Scenario
	for _, impl := range []string{"protected", "memguard"} {
		out = append(out,
			c11Scenario{impl + "/1r-1c", impl, []string{"reader", "closer"}},
			c11Scenario{impl + "/nested-1c", impl, []string{"nested", "closer"}},
			c11Scenario{impl + "/2r", impl, []string{"reader", "nested"}},
			c11Scenario{impl + "/2r-1c", impl, []string{"reader", "reader", "closer"}},
			c11Scenario{impl + "/1r-2c", impl, []string{"reader", "closer", "closer"}},
			c11Scenario{impl + "/panicker-1c", impl, []string{"panicker", "closer"}},
			c11Scenario{impl + "/panickerfunc-1r", impl, []string{"panicker-func", "reader"}},
			c11Scenario{impl + "/errreader-1r-1c", impl, []string{"err-reader", "reader", "closer"}},
		)
		if thorough {
			out = append(out,
				c11Scenario{impl + "/2r-2c", impl, []string{"reader", "nested", "closer", "closer"}},
				c11Scenario{impl + "/1r-1c-poller", impl, []string{"reader", "closer", "poller"}},
			)
		}
	}
	return out
}

// ---------------------------------------------------------------------------------
// C11(a): OS truth. A child process drives real secrets (real mmap/mlock/mprotect) through
// every operation sequence (explicit-state search on the tiny logical state) and looks the
// callback address up in /proc/self/smaps after every step.
// ---------------------------------------------------------------------------------

type smapsEntry struct {
	lo, hi  uintptr
	perms   string
	vmflags string
	found   bool
}

func smapsLookup(addr uintptr) smapsEntry {
	f, err := os.Open("/proc/self/smaps")
	if err != nil {
		return smapsEntry{}
	}
	defer f.Close()
	sc := bufio.NewScanner(f)
	sc.Buffer(make([]byte, 1<<16), 1<<20)
	var cur smapsEntry
	in := false
	for sc.Scan() {
		line := sc.Text()
		if len(line) > 0 && (line[0] >= '0' && line[0] <= '9' || line[0] >= 'a' && line[0] <= 'f') && strings.Contains(line, "-") && !strings.Contains(strings.SplitN(line, " ", 2)[0], ":") {
			if in {
				return cur
			}
			fields := strings.Fields(line)
			rng := strings.SplitN(fields[0], "-", 2)
			lo, _ := strconv.ParseUint(rng[0], 16, 64)
			hi, _ := strconv.ParseUint(rng[1], 16, 64)
			if addr >= uintptr(lo) && addr < uintptr(hi) {
				cur = smapsEntry{lo: uintptr(lo), hi: uintptr(hi), perms: fields[1], found: true}
				in = true
			}
			continue
		}
		if in && strings.HasPrefix(line, "VmFlags:") {
			cur.vmflags = line
			return cur
		}
	}
	return cur
}

type c11aWorld struct {
	impl   string
	size   int
	sec    securememory.Secret
	orig   []byte
	addr   uintptr
	closed bool
	stuck  bool // a reader left the pages accessible: Close would block
	fails  []kViol
}

func (w *c11aWorld) failf(sig, format string, a ...interface{}) {
	w.fails = append(w.fails, kViol{Prop: "C11", Sig: sig, Msg: fmt.Sprintf(format, a...)})
}

func realFactory(impl string) securememory.SecretFactory {
	if impl == "memguard" {
		return new(memguard.SecretFactory)
	}
	return new(protectedmemory.SecretFactory)
}

func (w *c11aWorld) checkIdle(after string) {
	if w.sec == nil || w.addr == 0 {
		return
	}
	e := smapsLookup(w.addr)
	if w.closed {
		if e.found && strings.Contains(e.vmflags, " lo") {
			w.failf("locked-after-close", "after %s: address %#x is still in a locked mapping %s %s", after, w.addr, e.perms, e.vmflags)
		}
		return
	}
	if !e.found {
		w.failf("no-mapping-while-open", "after %s: the secret's address %#x is not mapped although the secret is open", after, w.addr)
		return
	}
	if e.perms != "---p" {
		w.failf("idle-not-prot-none", "after %s: idle secret pages have permissions %s, want ---p", after, e.perms)
	}
	if !strings.Contains(e.vmflags, " lo") {
		w.failf("idle-not-locked", "after %s: secret pages are not mlock'd: %s", after, e.vmflags)
	}
	if !strings.Contains(e.vmflags, " dd") {
		w.failf("idle-dumpable", "after %s: secret pages are not excluded from core dumps: %s", after, e.vmflags)
	}
}

func (w *c11aWorld) insideCB(depth int, inner func()) func(b []byte) error {
	return func(b []byte) error {
		if len(b) != w.size {
			w.failf("wrong-length", "callback got %d bytes, want %d", len(b), w.size)
			return nil
		}
		w.addr = uintptr(unsafe.Pointer(&b[0]))
		e := smapsLookup(w.addr)
		if !e.found || e.perms != "r--p" {
			w.failf("in-use-not-readonly", "inside a reader callback (depth %d) the pages have permissions %q, want r--p", depth, e.perms)
		}
		if !strings.Contains(e.vmflags, " lo") {
			w.failf("in-use-not-locked", "inside a reader callback the pages are not locked: %s", e.vmflags)
		}
		if w.orig != nil && !bytes.Equal(b, w.orig) {
			w.failf("reader-wrong-bytes", "callback saw other bytes than were stored")
		}
		if inner != nil {
			inner()
			e2 := smapsLookup(w.addr)
			if !e2.found || e2.perms != "r--p" {
				w.failf("outer-reader-lost-access", "after a nested reader returned the outer callback's pages have permissions %q", e2.perms)
			}
		}
		return nil
	}
}

func (w *c11aWorld) apply(op string) {
	pan := safe(func() {
		switch op {
		case "new":
			w.orig = make([]byte, w.size)
			for i := range w.orig {
				w.orig[i] = byte(i*7 + 1)
			}
			s, err := realFactory(w.impl).New(append([]byte(nil), w.orig...))
			if err != nil {
				w.failf("create-failed", "New(%d bytes): %v", w.size, err)
				return
			}
			w.sec = s
		case "rand":
			s, err := realFactory(w.impl).CreateRandom(w.size)
			if err != nil {
				w.failf("create-failed", "CreateRandom(%d): %v", w.size, err)
				return
			}
			w.sec, w.orig = s, nil
		case "with", "withfunc", "nested", "reader":
			var err error
			switch op {
			case "with":
				err = w.sec.WithBytes(w.insideCB(1, nil))
			case "withfunc":
				_, err = w.sec.WithBytesFunc(func(b []byte) ([]byte, error) { return nil, w.insideCB(1, nil)(b) })
			case "nested":
				err = w.sec.WithBytes(w.insideCB(1, func() {
					if e := w.sec.WithBytes(w.insideCB(2, nil)); e != nil && !w.closed {
						w.failf("nested-failed", "nested WithBytes: %v", e)
					}
				}))
			case "reader":
				buf := make([]byte, w.size)
				n, e := w.sec.NewReader().Read(buf)
				if e != nil && e.Error() != "EOF" {
					err = e
				} else if !w.closed && (n != w.size || (w.orig != nil && !bytes.Equal(buf, w.orig))) {
					w.failf("reader-wrong-bytes", "NewReader().Read returned %d bytes", n)
				}
			}
			if w.closed {
				if err == nil {
					w.failf("access-after-close", "%s after Close succeeded", op)
				} else if !strings.Contains(err.Error(), "already been destroyed") {
					w.failf("access-after-close-error", "%s after Close: unexpected error %v", op, err)
				}
			} else if err != nil {
				w.failf("access-failed", "%s on an open secret: %v", op, err)
			}
		case "with-panic", "withfunc-panic", "with-err", "withfunc-err":
			// a callback that panics (recovered by the caller) or returns an error: the pages go back to no-access
			var err error
			var cbPan string
			inner := func(b []byte) error {
				w.insideCB(1, nil)(b)
				if strings.HasSuffix(op, "-panic") {
					panic(c11Panic)
				}
				return errC11Callback
			}
			cbPan = safe(func() {
				if strings.HasPrefix(op, "withfunc") {
					_, err = w.sec.WithBytesFunc(func(b []byte) ([]byte, error) { return nil, inner(b) })
				} else {
					err = w.sec.WithBytes(inner)
				}
			})
			switch {
			case w.closed:
				if cbPan != "" || err == nil {
					w.failf("access-after-close", "%s after Close: panic=%q err=%v", op, cbPan, err)
				}
			case strings.HasSuffix(op, "-panic"):
				if !strings.Contains(cbPan, c11Panic) {
					w.failf("callback-panic-swallowed", "%s: the callback's panic did not come out (panic=%q err=%v)", op, cbPan, err)
				}
			default:
				if cbPan != "" {
					w.failf("panic:"+op, "%s panicked: %s", op, cbPan)
				} else if err == nil || !strings.Contains(err.Error(), errC11Callback.Error()) {
					w.failf("callback-error-lost", "%s: the callback's error was not returned: %v", op, err)
				}
			}
			if !w.closed && w.addr != 0 {
				if e := smapsLookup(w.addr); e.found && e.perms != "---p" {
					// the secret is stuck in the in-use state: Close would wait for ever, do not call it
					w.stuck = true
				}
			}
		case "isclosed":
			if got := w.sec.IsClosed(); got != w.closed {
				w.failf("isclosed", "IsClosed() = %v, want %v", got, w.closed)
			}
		case "close":
			if w.stuck {
				w.failf("close-would-block", "Close not attempted: the pages were left accessible by an earlier reader whose callback panicked / failed, the reader count never returns to zero")
				return
			}
			if err := w.sec.Close(); err != nil {
				w.failf("close-error", "Close: %v", err)
			}
			w.closed = true
		}
	})
	if pan != "" {
		w.failf("panic:"+op, "%s panicked: %s", op, pan)
	}
	w.checkIdle(op)
}

// c11aRun explores every operation sequence up to depth on one (impl, size); the logical state
// (created? closed? has a reader address been seen?) is tiny, so the search closes quickly.
func c11aRun(impl string, size, depth int, r *Report) {
	t0 := time.Now()
	type st struct{ created, closed, seen bool }
	seen := map[st]bool{{}: true}
	frontier := [][]string{{}}
	sigSeen := map[string]bool{}
	ntrans := 0
	ops := []string{"new", "rand", "with", "withfunc", "nested", "reader", "with-panic", "withfunc-panic", "with-err", "withfunc-err", "isclosed", "close"}
	run := func(h []string) (*c11aWorld, st) {
		w := &c11aWorld{impl: impl, size: size}
		for _, op := range h {
			w.apply(op)
		}
		s := st{w.sec != nil, w.closed, w.addr != 0}
		if w.sec != nil && !w.closed && !w.stuck {
			w.sec.Close()
		}
		return w, s
	}
	closedSpace := false
	for d := 0; d < depth && len(frontier) > 0; d++ {
		var next [][]string
		for _, h := range frontier {
			_, s := run(h)
			for _, op := range ops {
				if (op == "new" || op == "rand") == s.created {
					continue // exactly one secret per history
				}
				h2 := append(append([]string{}, h...), op)
				w, s2 := run(h2)
				ntrans++
				for _, v := range w.fails {
					sig := v.Sig + "@C11a/" + impl
					if !sigSeen[sig] {
						sigSeen[sig] = true
						r.Viols = append(r.Viols, Viol{Property: "C11", Harness: fmt.Sprintf("C11a/%s/size%d", impl, size), Sig: sig, Msg: v.Msg, Ops: h2})
					}
				}
				// keep exploring sequences, not only states: the page state after k operations is what is observed
				if !seen[s2] || len(h2) < 4 {
					seen[s2] = true
					next = append(next, h2)
				}
			}
		}
		frontier = next
		if len(next) == 0 {
			closedSpace = true
		}
	}
	_ = closedSpace
	r.Runs = append(r.Runs, RunInfo{Name: fmt.Sprintf("C11a/%s/size%d", impl, size), Executions: ntrans, States: len(seen), Transitions: int64(ntrans), Exhaustive: true,
		Bound: fmt.Sprintf("all operation sequences up to depth %d on real pages, smaps checked after every step", depth), WallS: time.Since(t0).Seconds()})
	r.Evaluations += ntrans
	r.TracesValidated += ntrans
	r.States += len(seen)
	r.Transitions += int64(ntrans)
	r.DistinctNontrivial += ntrans
}

// CheckC11 runs part (b) under the scheduler and part (a) on real pages.
func CheckC11(r *Report) {
	r.Rule = "(b) every interleaving up to the preemption bound of R readers (one nested), C closers, readers whose callback panics or returns an error, and an IsClosed poller on one secret of each implementation over a shadow page table, with a scheduling point inside every reader callback; (a) every sequence of New/CreateRandom/WithBytes/WithBytesFunc/nested/NewReader.Read/callbacks that panic or fail/IsClosed/Close up to the depth bound on real mmap/mlock/mprotect pages for sizes {1,32,4096,4097,12288}, with /proc/self/smaps looked up inside callbacks and after every step; non-trivial = executions with a cross-thread conflict (b) / transitions (a)"
	bounds := []int{0, 1, 2}
	if r.Thorough() {
		bounds = []int{0, 1, 2, 3}
	}
	byName := map[string]c11Scenario{}
	var names []string
	for _, sc := range c11Scenarios(r.Thorough()) {
		byName[sc.name] = sc
		names = append(names, "b:"+sc.name)
	}
	sizes := []int{1, 4097}
	depth := 4
	if r.Thorough() {
		sizes = []int{1, 32, 4096, 4097, 12288}
		depth = 5
	}
	for _, impl := range []string{"protected", "memguard"} {
		for _, sz := range sizes {
			names = append(names, fmt.Sprintf("a:%s:%d", impl, sz))
		}
	}
	r.CrashIsViolation = true
	r.RunScenarios(names, func(r *Report, name string) {
		if strings.HasPrefix(name, "a:") {
			f := strings.Split(name, ":")
			c11aRun(f[1], atoi(f[2]), depth, r)
			if len(r.Samples) < 1 {
				r.Samples = append(r.Samples, map[string]interface{}{"impl": f[1], "size": f[2], "sequence": []string{"new", "with", "nested", "close", "with"}})
			}
			return
		}
		sc := byName[name[2:]]
		var last *explore.Result
		completed := -1
		t0 := time.Now()
		for _, b := range bounds {
			cfg := explore.Config{Name: "C11b/" + sc.name, Preemptions: b, Deviations: 0, HBCache: false, Deadline: r.Deadline, MaxViolations: 5}
			res := explore.Explore(cfg, sc.body)
			last = res
			if res.Exhaustive {
				completed = b
			}
			if len(res.Violations) > 0 || !res.Exhaustive || !r.TimeLeft() {
				break
			}
		}
		r.AddExplore(last, fmt.Sprintf("preemption bound completed=%d", completed), time.Since(t0).Seconds())
	})
}
