package harness

import (
	"bytes"
	"fmt"
	"strings"
	"time"

	ae "github.com/godaddy/asherah/go/appencryption"

	"asherahverif/doubles"
	"asherahverif/ref"
	"asherahverif/shim/vclock"
)

// ---------------------------------------------------------------------------------
// C01 over region-suffixed key ids: two factories see ONE key table (a global table) through metastores that
// report different region suffixes, a third one through the same suffix as the first. Every operation sequence
// up to the depth bound over {encrypt by each factory, decrypt of every record by each factory, key expiry};
// every decrypt must return the payload (records written under another region's suffix stay readable, as the
// SDK documents), and the reference decrypts every record from the table.
// ---------------------------------------------------------------------------------

type sfxView struct {
	*doubles.SpyMetastore
	sfx string
}

func (v sfxView) GetRegionSuffix() string { return v.sfx }

type c01SfxWorld struct {
	w        *World
	fs       []*ae.SessionFactory
	ss       []*ae.Session
	recs     []*ae.DataRowRecord
	pays     [][]byte
	by       []int
	realKind string
}

var c01SfxRegions = []string{"us-west-2", "us-east-1", "us-west-2"}

func newC01SfxWorld(spec PolicySpec) *c01SfxWorld { return newC01World(spec, "") }

// newC01World: realKind == "" gives three views with different region suffixes on the spy table; otherwise the three
// factories share one real metastore object of that kind (DynamoDB plugins on the eventually consistent fake, memory).
func newC01World(spec PolicySpec, realKind string) *c01SfxWorld {
	resetGlobals()
	sw := &c01SfxWorld{w: NewWorld(), realKind: realKind}
	var real ae.Metastore
	if realKind != "" {
		real, _ = c14RealStore(realKind)
	}
	for _, sfx := range c01SfxRegions {
		var store ae.Metastore = sfxView{sw.w.MS, sfx}
		if real != nil {
			store = real
		}
		f := ae.NewSessionFactory(&ae.Config{Service: "s", Product: "p", Policy: spec.Build()}, store, sw.w.KMS, sw.w.AEAD, ae.WithSecretFactory(sw.w.TF))
		s, err := f.GetSession("A")
		if err != nil {
			panic(err)
		}
		sw.fs = append(sw.fs, f)
		sw.ss = append(sw.ss, s)
	}
	return sw
}

// apply executes one operation; returns a failure (sig, message) or "".
func (sw *c01SfxWorld) apply(op string) (string, string) {
	var a, b int
	switch {
	case op == "tick":
		vclock.Advance((E + 1) * time.Second)
	case strings.HasPrefix(op, "enc"):
		fmt.Sscanf(op, "enc%d", &a)
		pl := []byte(fmt.Sprintf("payload-%d-by-%d", len(sw.recs), a))
		var rec *ae.DataRowRecord
		var err error
		if pan := safe(func() { rec, err = sw.ss[a].Encrypt(ctx, append([]byte(nil), pl...)) }); pan != "" {
			return "suffix-encrypt-panic", fmt.Sprintf("encrypt by the factory of region %s panicked: %s", c01SfxRegions[a], pan)
		}
		if err != nil {
			return "suffix-encrypt-failed", fmt.Sprintf("encrypt by the factory of region %s failed: %v", c01SfxRegions[a], err)
		}
		want := ref.IntermediateKeyID("A", "s", "p", c01SfxRegions[a])
		if sw.realKind != "" {
			want = ref.IntermediateKeyID("A", "s", "p", "")
		}
		if rec.Key.ParentKeyMeta.ID != want {
			return "suffix-wrong-key-id", fmt.Sprintf("the factory of region %s wrote under key id %s, want %s", c01SfxRegions[a], rec.Key.ParentKeyMeta.ID, want)
		}
		sw.recs = append(sw.recs, rec)
		sw.pays = append(sw.pays, pl)
		sw.by = append(sw.by, a)
		if sw.realKind != "" {
			break
		}
		if out, err := ref.Decrypt(tableOf(sw.w.MS), sw.w.KMS.Unwrap, toRefRow(rec)); err != nil || !bytes.Equal(out, pl) {
			return "suffix-reference-decrypt", fmt.Sprintf("the record of region %s cannot be decrypted from the table by the reference: %v", c01SfxRegions[a], err)
		}
	case strings.HasPrefix(op, "dec"):
		fmt.Sscanf(op, "dec%d:%d", &a, &b)
		var out []byte
		var err error
		if pan := safe(func() { out, err = sw.ss[a].Decrypt(ctx, *cloneDRR(sw.recs[b])) }); pan != "" {
			return "suffix-decrypt-panic", fmt.Sprintf("decrypt panicked: %s", pan)
		}
		if err != nil || !bytes.Equal(out, sw.pays[b]) {
			rel := "same-region"
			if c01SfxRegions[a] != c01SfxRegions[sw.by[b]] {
				rel = "other-region"
			}
			return "suffix-decrypt:" + rel, fmt.Sprintf("the factory of region %s cannot decrypt record %d written by the factory of region %s (key id %s): %v %q", c01SfxRegions[a], b, c01SfxRegions[sw.by[b]], sw.recs[b].Key.ParentKeyMeta.ID, err, out)
		}
	}
	return "", ""
}

func (sw *c01SfxWorld) close() {
	for i := range sw.fs {
		sw.ss[i].Close()
		sw.fs[i].Close()
	}
}

// c01Suffix enumerates every sequence up to the depth bound (fresh world per sequence; decrypts only of existing records).
func c01Suffix(r *Report) {
	depth := 4
	specs := []PolicySpec{SpecDefault}
	if r.Thorough() {
		depth = 5
		specs = []PolicySpec{SpecDefault, SpecNoCache, SpecShared("lru", 1)}
	}
	for _, spec := range specs {
		t0 := time.Now()
		seqs, decs := 0, 0
		seen := map[string]bool{}
		var rec func(hist []string, nrecs int)
		rec = func(hist []string, nrecs int) {
			if len(hist) > 0 {
				seqs++
				sw := newC01SfxWorld(spec)
				for _, op := range hist {
					if sig, msg := sw.apply(op); sig != "" {
						if !seen[sig] {
							seen[sig] = true
							r.Viols = append(r.Viols, Viol{Property: "C01", Harness: "C01/suffix", Sig: sig + "@suffix-" + spec.Name, Msg: msg + fmt.Sprintf(" [sequence %v]", hist), Ops: append([]string{spec.Name}, hist...)})
						}
						sw.close()
						return // do not extend a failing sequence
					}
				}
				sw.close()
			}
			if len(hist) == depth {
				return
			}
			ops := []string{"enc0", "enc1", "enc2", "tick"}
			for f := 0; f < 3; f++ {
				for k := 0; k < nrecs; k++ {
					ops = append(ops, fmt.Sprintf("dec%d:%d", f, k))
				}
			}
			for _, op := range ops {
				n := nrecs
				if strings.HasPrefix(op, "enc") {
					n++
				}
				if strings.HasPrefix(op, "dec") {
					decs++
				}
				rec(append(append([]string{}, hist...), op), n)
			}
		}
		rec(nil, 0)
		r.Runs = append(r.Runs, RunInfo{Name: "C01/suffix-" + spec.Name, Executions: seqs, States: seqs, Transitions: int64(seqs), Exhaustive: true,
			Bound: fmt.Sprintf("all operation sequences of length <= %d over 3 factories (region suffixes %v) on one key table", depth, c01SfxRegions), WallS: time.Since(t0).Seconds(),
			Extra: map[string]int{"decrypt-steps": decs}})
		r.Evaluations += seqs
		r.Transitions += int64(seqs)
		r.TracesValidated += seqs
	}
	r.Notes = append(r.Notes, "region-suffixed key ids: factories behind different region suffixes on one key table decrypt each other's records (every sequence up to the depth bound)")
	c01RealStores(r)
}

// c01RealStores: the same sequences over three factories that share one REAL metastore object (the DynamoDB plugins on a
// fake whose reads are eventually consistent unless the request asks for a consistent one; memory): a factory that has
// nothing cached decrypts a record the moment another one has produced it.
func c01RealStores(r *Report) {
	depth := 3
	kinds := []string{"dynamodb-v1", "dynamodb-v2"}
	if r.Thorough() {
		depth = 4
		kinds = append(kinds, "dynamodb-deprecated", "memory")
	}
	for _, kind := range kinds {
		t0 := time.Now()
		seqs := 0
		seen := map[string]bool{}
		var rec func(hist []string, nrecs int)
		rec = func(hist []string, nrecs int) {
			if len(hist) > 0 {
				seqs++
				sw := newC01World(SpecDefault, kind)
				for _, op := range hist {
					if sig, msg := sw.apply(op); sig != "" {
						sig = strings.Replace(sig, "suffix-", "real-store-", 1)
						if !seen[sig] {
							seen[sig] = true
							r.Viols = append(r.Viols, Viol{Property: "C01", Harness: "C01/real-store", Sig: sig + "@" + kind, Msg: strings.Replace(msg, "of region us-", "behind "+kind+" #", -1) + fmt.Sprintf(" [sequence %v]", hist), Ops: append([]string{kind}, hist...)})
						}
						sw.close()
						return
					}
				}
				sw.close()
			}
			if len(hist) == depth {
				return
			}
			ops := []string{"enc0", "enc1", "tick"}
			for f := 0; f < 3; f++ {
				for k := 0; k < nrecs; k++ {
					ops = append(ops, fmt.Sprintf("dec%d:%d", f, k))
				}
			}
			for _, op := range ops {
				n := nrecs
				if strings.HasPrefix(op, "enc") {
					n++
				}
				rec(append(append([]string{}, hist...), op), n)
			}
		}
		rec(nil, 0)
		r.Runs = append(r.Runs, RunInfo{Name: "C01/real-store-" + kind, Executions: seqs, States: seqs, Transitions: int64(seqs), Exhaustive: true,
			Bound: fmt.Sprintf("all operation sequences of length <= %d over 3 factories on one %s metastore object", depth, kind), WallS: time.Since(t0).Seconds()})
		r.Evaluations += seqs
		r.Transitions += int64(seqs)
		r.TracesValidated += seqs
	}
}

// c01SuffixReplay re-executes one sequence.
func c01RealStoreReplay(ops []string) []string {
	sw := newC01World(SpecDefault, ops[0])
	defer sw.close()
	for _, op := range ops[1:] {
		if sig, msg := sw.apply(op); sig != "" {
			return []string{sig + ": " + msg}
		}
	}
	return nil
}

func c01SuffixReplay(ops []string) []string {
	var spec PolicySpec
	switch ops[0] {
	case "nocache":
		spec = SpecNoCache
	case "shared-lru-1":
		spec = SpecShared("lru", 1)
	default:
		spec = SpecDefault
	}
	sw := newC01SfxWorld(spec)
	defer sw.close()
	for _, op := range ops[1:] {
		if sig, msg := sw.apply(op); sig != "" {
			return []string{sig + ": " + msg}
		}
	}
	return nil
}

// ---------------------------------------------------------------------------------
// C01 through Session.Store / Session.Load ("returned by a successful encrypt (or store) ... decrypts (or loads)"):
// every order of store / load / encrypt / decrypt steps up to the depth bound over a storer that keeps the records it
// is given, two factories, with storer / loader failures as alternative answers.
// ---------------------------------------------------------------------------------

type c01KV struct {
	m       map[int]ae.DataRowRecord
	n       int
	failing bool
}

var errC01KV = fmt.Errorf("kv store: injected failure")

func (k *c01KV) Store(_ ctxT, d ae.DataRowRecord) (interface{}, error) {
	if k.failing {
		return nil, errC01KV
	}
	k.n++
	k.m[k.n] = *cloneDRR(&d)
	return k.n, nil
}

func (k *c01KV) Load(_ ctxT, key interface{}) (*ae.DataRowRecord, error) {
	if k.failing {
		return nil, errC01KV
	}
	d, ok := k.m[key.(int)]
	if !ok {
		return nil, nil
	}
	return cloneDRR(&d), nil
}

func c01StoreLoad(r *Report) {
	t0 := time.Now()
	depth := 4
	if r.Thorough() {
		depth = 5
	}
	ops := []string{"store0", "store1", "store0!", "load0", "load1", "load0!", "loadmissing", "enc-then-kvstore", "tick"}
	seen := map[string]bool{}
	seqs := 0
	var rec func(hist []string)
	rec = func(hist []string) {
		if len(hist) > 0 {
			seqs++
			if sig, msg := c01StoreLoadRun(hist); sig != "" {
				if !seen[sig] {
					seen[sig] = true
					r.Viols = append(r.Viols, Viol{Property: "C01", Harness: "C01/store-load", Sig: sig + "@store-load", Msg: msg + fmt.Sprintf(" [sequence %v]", hist), Ops: append([]string{}, hist...)})
				}
				return
			}
		}
		if len(hist) == depth {
			return
		}
		for _, op := range ops {
			rec(append(append([]string{}, hist...), op))
		}
	}
	rec(nil)
	r.Runs = append(r.Runs, RunInfo{Name: "C01/store-load", Executions: seqs, States: seqs, Transitions: int64(seqs), Exhaustive: true,
		Bound: fmt.Sprintf("all sequences of length <= %d over %d Session.Store / Session.Load steps (two factories, failing storer / loader)", depth, len(ops)), WallS: time.Since(t0).Seconds()})
	r.Evaluations += seqs
	r.Transitions += int64(seqs)
	r.TracesValidated += seqs
	r.Notes = append(r.Notes, "Session.Store / Session.Load: records handed to a storer load back to the payload in both factories, storer / loader failures are reported")
}

func c01StoreLoadRun(hist []string) (string, string) {
	resetGlobals()
	w := NewWorld()
	kv := &c01KV{m: map[int]ae.DataRowRecord{}}
	var fs [2]*ae.SessionFactory
	var ss [2]*ae.Session
	for i := range fs {
		fs[i] = w.NewFactory(SpecDefault)
		ss[i], _ = fs[i].GetSession("A")
	}
	defer func() {
		for i := range fs {
			ss[i].Close()
			fs[i].Close()
		}
	}()
	pays := map[int][]byte{}
	for step, op := range hist {
		f := 0
		if strings.Contains(op, "1") {
			f = 1
		}
		kv.failing = strings.HasSuffix(op, "!")
		switch {
		case op == "tick":
			vclock.Advance((E + 1) * time.Second)
		case strings.HasPrefix(op, "store"):
			pl := []byte(fmt.Sprintf("stored-payload-%d", step))
			orig := append([]byte(nil), pl...)
			var key interface{}
			var err error
			if pan := safe(func() { key, err = ss[f].Store(ctx, pl, kv) }); pan != "" {
				return "store-panic", "Session.Store panicked: " + pan
			}
			if !bytes.Equal(pl, orig) {
				return "payload-modified", "Session.Store modified the caller's payload"
			}
			if kv.failing {
				if err == nil {
					return "storer-error-lost", fmt.Sprintf("the storer failed but Session.Store returned key %v and no error", key)
				}
				continue
			}
			if err != nil {
				return "store-failed", fmt.Sprintf("Session.Store failed: %v", err)
			}
			k, ok := key.(int)
			if !ok || k != kv.n {
				return "store-wrong-key", fmt.Sprintf("Session.Store returned key %v, the storer returned %d", key, kv.n)
			}
			pays[k] = orig
			d := kv.m[k]
			if out, err := ref.Decrypt(tableOf(w.MS), w.KMS.Unwrap, toRefRow(&d)); err != nil || !bytes.Equal(out, orig) {
				return "stored-record-reference-decrypt", fmt.Sprintf("the record handed to the storer does not decrypt to the payload by the reference: %v", err)
			}
		case op == "enc-then-kvstore":
			pl := []byte(fmt.Sprintf("encrypted-payload-%d", step))
			d, err := ss[0].Encrypt(ctx, append([]byte(nil), pl...))
			if err != nil {
				return "encrypt-failed", err.Error()
			}
			k, _ := kv.Store(ctx, *d)
			pays[k.(int)] = pl
		case op == "loadmissing":
			out, err := ss[f].Load(ctx, 9999, kv)
			if err == nil {
				return "load-missing-succeeded", fmt.Sprintf("Session.Load of a key the loader does not have returned %q and no error", out)
			}
		case strings.HasPrefix(op, "load"):
			for k, want := range pays {
				var out []byte
				var err error
				if pan := safe(func() { out, err = ss[f].Load(ctx, k, kv) }); pan != "" {
					return "load-panic", "Session.Load panicked: " + pan
				}
				if kv.failing {
					if err == nil {
						return "loader-error-lost", "the loader failed but Session.Load returned no error"
					}
					continue
				}
				if err != nil || !bytes.Equal(out, want) {
					return "load-wrong", fmt.Sprintf("Session.Load(%d) by factory %d returned %q, %v; want %q", k, f, out, err, want)
				}
			}
		}
	}
	return "", ""
}
