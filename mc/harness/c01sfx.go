package harness

import (
	"bytes"
	"fmt"
	"strings"
	"time"

	ae "github.com/godaddy/asherah/go/appencryption"

	"asherahverif/doubles"
	"asherahverif/ref"
	"asherahverif/shim/vclock"
)

// ---------------------------------------------------------------------------------
// C01 over region-suffixed key ids: two factories see ONE key table (a global table) through metastores that
// report different region suffixes, a third one through the same suffix as the first. Every operation sequence
// up to the depth bound over {encrypt by each factory, decrypt of every record by each factory, key expiry};
// every decrypt must return the payload (records written under another region's suffix stay readable, as the
// SDK documents), and the reference decrypts every record from the table.
// ---------------------------------------------------------------------------------

type sfxView struct {
	*doubles.SpyMetastore
	sfx string
}

func (v sfxView) GetRegionSuffix() string { return v.sfx }

type c01SfxWorld struct {
	w    *World
	fs   []*ae.SessionFactory
	ss   []*ae.Session
	recs []*ae.DataRowRecord
	pays [][]byte
	by   []int
}

var c01SfxRegions = []string{"us-west-2", "us-east-1", "us-west-2"}

func newC01SfxWorld(spec PolicySpec) *c01SfxWorld {
	resetGlobals()
	sw := &c01SfxWorld{w: NewWorld()}
	for _, sfx := range c01SfxRegions {
		f := ae.NewSessionFactory(&ae.Config{Service: "s", Product: "p", Policy: spec.Build()}, sfxView{sw.w.MS, sfx}, sw.w.KMS, sw.w.AEAD, ae.WithSecretFactory(sw.w.TF))
		s, err := f.GetSession("A")
		if err != nil {
			panic(err)
		}
		sw.fs = append(sw.fs, f)
		sw.ss = append(sw.ss, s)
	}
	return sw
}

// apply executes one operation; returns a failure (sig, message) or "".
func (sw *c01SfxWorld) apply(op string) (string, string) {
	var a, b int
	switch {
	case op == "tick":
		vclock.Advance((E + 1) * time.Second)
	case strings.HasPrefix(op, "enc"):
		fmt.Sscanf(op, "enc%d", &a)
		pl := []byte(fmt.Sprintf("payload-%d-by-%d", len(sw.recs), a))
		var rec *ae.DataRowRecord
		var err error
		if pan := safe(func() { rec, err = sw.ss[a].Encrypt(ctx, append([]byte(nil), pl...)) }); pan != "" {
			return "suffix-encrypt-panic", fmt.Sprintf("encrypt by the factory of region %s panicked: %s", c01SfxRegions[a], pan)
		}
		if err != nil {
			return "suffix-encrypt-failed", fmt.Sprintf("encrypt by the factory of region %s failed: %v", c01SfxRegions[a], err)
		}
		want := ref.IntermediateKeyID("A", "s", "p", c01SfxRegions[a])
		if rec.Key.ParentKeyMeta.ID != want {
			return "suffix-wrong-key-id", fmt.Sprintf("the factory of region %s wrote under key id %s, want %s", c01SfxRegions[a], rec.Key.ParentKeyMeta.ID, want)
		}
		sw.recs = append(sw.recs, rec)
		sw.pays = append(sw.pays, pl)
		sw.by = append(sw.by, a)
		if out, err := ref.Decrypt(tableOf(sw.w.MS), sw.w.KMS.Unwrap, toRefRow(rec)); err != nil || !bytes.Equal(out, pl) {
			return "suffix-reference-decrypt", fmt.Sprintf("the record of region %s cannot be decrypted from the table by the reference: %v", c01SfxRegions[a], err)
		}
	case strings.HasPrefix(op, "dec"):
		fmt.Sscanf(op, "dec%d:%d", &a, &b)
		var out []byte
		var err error
		if pan := safe(func() { out, err = sw.ss[a].Decrypt(ctx, *cloneDRR(sw.recs[b])) }); pan != "" {
			return "suffix-decrypt-panic", fmt.Sprintf("decrypt panicked: %s", pan)
		}
		if err != nil || !bytes.Equal(out, sw.pays[b]) {
			rel := "same-region"
			if c01SfxRegions[a] != c01SfxRegions[sw.by[b]] {
				rel = "other-region"
			}
			return "suffix-decrypt:" + rel, fmt.Sprintf("the factory of region %s cannot decrypt record %d written by the factory of region %s (key id %s): %v %q", c01SfxRegions[a], b, c01SfxRegions[sw.by[b]], sw.recs[b].Key.ParentKeyMeta.ID, err, out)
		}
	}
	return "", ""
}

func (sw *c01SfxWorld) close() {
	for i := range sw.fs {
		sw.ss[i].Close()
		sw.fs[i].Close()
	}
}

// c01Suffix enumerates every sequence up to the depth bound (fresh world per sequence; decrypts only of existing records).
func c01Suffix(r *Report) {
	depth := 4
	specs := []PolicySpec{SpecDefault}
	if r.Thorough() {
		depth = 5
		specs = []PolicySpec{SpecDefault, SpecNoCache, SpecShared("lru", 1)}
	}
	for _, spec := range specs {
		t0 := time.Now()
		seqs, decs := 0, 0
		seen := map[string]bool{}
		var rec func(hist []string, nrecs int)
		rec = func(hist []string, nrecs int) {
			if len(hist) > 0 {
				seqs++
				sw := newC01SfxWorld(spec)
				for _, op := range hist {
					if sig, msg := sw.apply(op); sig != "" {
						if !seen[sig] {
							seen[sig] = true
							r.Viols = append(r.Viols, Viol{Property: "C01", Harness: "C01/suffix", Sig: sig + "@suffix-" + spec.Name, Msg: msg + fmt.Sprintf(" [sequence %v]", hist), Ops: append([]string{spec.Name}, hist...)})
						}
						sw.close()
						return // do not extend a failing sequence
					}
				}
				sw.close()
			}
			if len(hist) == depth {
				return
			}
			ops := []string{"enc0", "enc1", "enc2", "tick"}
			for f := 0; f < 3; f++ {
				for k := 0; k < nrecs; k++ {
					ops = append(ops, fmt.Sprintf("dec%d:%d", f, k))
				}
			}
			for _, op := range ops {
				n := nrecs
				if strings.HasPrefix(op, "enc") {
					n++
				}
				if strings.HasPrefix(op, "dec") {
					decs++
				}
				rec(append(append([]string{}, hist...), op), n)
			}
		}
		rec(nil, 0)
		r.Runs = append(r.Runs, RunInfo{Name: "C01/suffix-" + spec.Name, Executions: seqs, States: seqs, Transitions: int64(seqs), Exhaustive: true,
			Bound: fmt.Sprintf("all operation sequences of length <= %d over 3 factories (region suffixes %v) on one key table", depth, c01SfxRegions), WallS: time.Since(t0).Seconds(),
			Extra: map[string]int{"decrypt-steps": decs}})
		r.Evaluations += seqs
		r.Transitions += int64(seqs)
		r.TracesValidated += seqs
	}
	r.Notes = append(r.Notes, "region-suffixed key ids: factories behind different region suffixes on one key table decrypt each other's records (every sequence up to the depth bound)")
}

// c01SuffixReplay re-executes one sequence.
func c01SuffixReplay(ops []string) []string {
	var spec PolicySpec
	switch ops[0] {
	case "nocache":
		spec = SpecNoCache
	case "shared-lru-1":
		spec = SpecShared("lru", 1)
	default:
		spec = SpecDefault
	}
	sw := newC01SfxWorld(spec)
	defer sw.close()
	for _, op := range ops[1:] {
		if sig, msg := sw.apply(op); sig != "" {
			return []string{sig + ": " + msg}
		}
	}
	return nil
}
