package harness

import (
	"bytes"
	"fmt"
	"sort"
	"strings"
	"time"

	ae "github.com/godaddy/asherah/go/appencryption"

	"asherahverif/doubles"
	"asherahverif/ref"
)

// ---------------------------------------------------------------------------------
// C06: exhaustive product over an adversarial id universe: a session for P must never
// return plaintext for a record produced for Q != P.
// ---------------------------------------------------------------------------------

type c06Config struct {
	Service, Product string
	Suffix           string
	Cache            string // "session" | "shared" | "sessioncache" | "none"
	Tokens           int
}

func (c c06Config) name() string {
	sfx := "plain"
	if c.Suffix != "" {
		sfx = "suffixed"
	}
	return fmt.Sprintf("%s_%s-%s-%s-tok%d", c.Service, c.Product, sfx, c.Cache, c.Tokens)
}

func c06Universe(cfg c06Config) []string {
	toks := []string{"a", "b", "_", cfg.Service, cfg.Product, "us-west-2", "_" + cfg.Service + "_" + cfg.Product, "_IK_"}
	set := map[string]bool{}
	var rec func(cur string, n int)
	rec = func(cur string, n int) {
		if cur != "" {
			set[cur] = true
		}
		if n == 0 {
			return
		}
		for _, t := range toks {
			rec(cur+t, n-1)
		}
	}
	rec("", cfg.Tokens)
	// the relations the naming scheme makes dangerous, always included
	for _, base := range []string{"a", "b", "a_b"} {
		set[base] = true
		set[base+"_"+cfg.Service+"_"+cfg.Product] = true
		set[base+"_"+cfg.Service+"_"+cfg.Product+"_us-west-2"] = true
		set[base+"_"+cfg.Service] = true
	}
	// ids that only differ by something a careless normalisation would remove (surrounding white space, case,
	// a trailing NUL): they are DIFFERENT partitions
	for _, base := range []string{"a", "a_b", "tenant-1"} {
		for _, v := range []string{base + " ", " " + base, base + "\n", "\t" + base, strings.ToUpper(base), base + "\x00", base + "/", base + "."} {
			set[base] = true
			set[v] = true
		}
	}
	// long ids that share a long head (anything that truncates or digests a prefix of the id makes them collide)
	for _, n := range []int{63, 64, 65, 100, 300} {
		head := strings.Repeat("h", n)
		set[head] = true
		set[head+"A"] = true
		set[head+"B"] = true
		set[head+"/A/tail"] = true
		set[head+"/B/tail"] = true
	}
	var ids []string
	for id := range set {
		ids = append(ids, id)
	}
	sort.Strings(ids)
	return ids
}

func (c c06Config) spec() PolicySpec {
	switch c.Cache {
	case "shared":
		return SpecSharedIKOnly("lru", 100000)
	case "none":
		return SpecNoCache
	case "sessioncache":
		// sessions are handed out by the session cache (larger than the universe: nothing is evicted while held)
		sp := SpecSessions("slru", 100000)
		return sp
	}
	return SpecDefault
}

func c06Run(cfg c06Config, r *Report, sigSeen map[string]bool) {
	t0 := time.Now()
	resetGlobals()
	w := NewWorld()
	w.MS.Suffix = cfg.Suffix
	f := ae.NewSessionFactory(&ae.Config{Service: cfg.Service, Product: cfg.Product, Policy: cfg.spec().Build()}, w.MS, w.KMS, w.AEAD, ae.WithSecretFactory(w.TF))
	ids := c06Universe(cfg)
	sess := make([]*ae.Session, len(ids))
	recs := make([]*ae.DataRowRecord, len(ids))
	pay := make([][]byte, len(ids))
	for i, id := range ids {
		s, err := f.GetSession(id)
		if err != nil {
			r.MachineryError = fmt.Sprintf("GetSession(%q): %v", id, err)
			return
		}
		sess[i] = s
		pay[i] = []byte("secret-of-" + id)
		rec, err := s.Encrypt(ctx, append([]byte(nil), pay[i]...))
		if err != nil {
			r.MachineryError = fmt.Sprintf("Encrypt for %q: %v", id, err)
			return
		}
		recs[i] = rec
		// a partition's records name that partition's key and nothing else
		if want := ref.IntermediateKeyID(id, cfg.Service, cfg.Product, cfg.Suffix); rec.Key == nil || rec.Key.ParentKeyMeta == nil || rec.Key.ParentKeyMeta.ID != want {
			sig := cfg.name() + ":record-under-foreign-key-id"
			if !sigSeen[sig] {
				sigSeen[sig] = true
				r.Viols = append(r.Viols, Viol{Property: "C06", Harness: "C06/" + cfg.name(), Sig: sig, Msg: fmt.Sprintf("the record encrypted by the session of partition %q names key id %v, want %s", id, rec.Key, want), Ops: []string{id}})
			}
		}
	}
	// sanity / non-vacuity: every session decrypts its own record
	for i := range ids {
		out, err := sess[i].Decrypt(ctx, *cloneDRR(recs[i]))
		if err != nil || !bytes.Equal(out, pay[i]) {
			r.Viols = append(r.Viols, Viol{Property: "C06", Harness: "C06/" + cfg.name(), Sig: cfg.name() + ":own-record-rejected", Msg: fmt.Sprintf("session %q cannot decrypt its own record: %v", ids[i], err), Ops: []string{ids[i]}})
			return
		}
	}
	n, guardPassed, ambiguous, viol := 0, 0, 0, 0
	ikid := func(id string) string { return ref.IntermediateKeyID(id, cfg.Service, cfg.Product, cfg.Suffix) }
	for pi, p := range ids {
		for qi, q := range ids {
			if pi == qi {
				continue
			}
			n++
			if ikid(p) == ikid(q) {
				ambiguous++ // the documented naming scheme itself maps both partitions to one key id
				continue
			}
			var out []byte
			var err error
			pan := safe(func() { out, err = sess[pi].Decrypt(ctx, *cloneDRR(recs[qi])) })
			if pan != "" {
				viol++
				sig := cfg.name() + ":panic"
				if !sigSeen[sig] {
					sigSeen[sig] = true
					r.Viols = append(r.Viols, Viol{Property: "C06", Harness: "C06/" + cfg.name(), Sig: sig, Msg: fmt.Sprintf("session %q decrypting the record of %q panicked: %s", p, q, pan), Ops: []string{p, q}})
				}
				continue
			}
			if err == nil {
				viol++
				// classify by the relation between the two key ids
				rel := "other"
				defP := ref.IntermediateKeyID(p, cfg.Service, cfg.Product, "")
				switch {
				case cfg.Suffix != "" && strings.HasPrefix(ikid(q), defP):
					rel = "suffixed-prefix-collision"
				case cfg.Suffix == "":
					rel = "plain"
				}
				sig := "isolation:" + rel
				if rel == "other" || rel == "plain" {
					sig = cfg.name() + ":" + sig
				}
				if !sigSeen[sig] {
					sigSeen[sig] = true
					r.Viols = append(r.Viols, Viol{Property: "C06", Harness: "C06/" + cfg.name(), Sig: sig,
						Msg: fmt.Sprintf("session for partition %q (key id %s) decrypted the record of partition %q (key id %s) and returned %q", p, ikid(p), q, ikid(q), out), Ops: []string{p, q}})
				} else {
					r.Counters["further-"+sig]++
				}
				continue
			}
			if !strings.Contains(err.Error(), "unable to decrypt record") {
				guardPassed++
			}
		}
	}
	// empty partition id
	if _, err := f.GetSession(""); err == nil {
		r.Viols = append(r.Viols, Viol{Property: "C06", Harness: "C06/" + cfg.name(), Sig: cfg.name() + ":empty-id-accepted", Msg: "GetSession(\"\") returned a session", Ops: []string{""}})
	}
	for _, s := range sess {
		s.Close()
	}
	f.Close()
	r.Runs = append(r.Runs, RunInfo{Name: "C06/" + cfg.name(), Executions: n, States: len(ids), Transitions: int64(n), Exhaustive: true, Violations: viol,
		Bound: fmt.Sprintf("%d ids (all concatenations of <=%d tokens + dangerous relations), all %d ordered pairs", len(ids), cfg.Tokens, n),
		Extra: map[string]int{"scheme-ambiguous-pairs": ambiguous, "pairs-rejected-after-the-id-guard": guardPassed, "violating-pairs": viol}, WallS: time.Since(t0).Seconds()})
	r.Evaluations += n
	r.DistinctNontrivial += n - ambiguous
	r.TracesValidated += n
	r.States += len(ids)
	r.Transitions += int64(n)
	if len(r.Samples) < 3 {
		r.Samples = append(r.Samples, map[string]interface{}{"config": cfg.name(), "ids": []string{ids[0], ids[len(ids)/3], ids[len(ids)/2], ids[len(ids)-1]}})
	}
	_ = doubles.FaultNone
}

// CheckC06 runs the product for every configuration of the tier.
func CheckC06(r *Report) {
	r.Level = "exploration"
	r.Rule = "id universe = every concatenation of up to N tokens from {a, b, _, service, product, region suffix, _service_product, _IK_} plus the relations P / P_service_product / P_service_product_region; one genuine record per id; every ordered pair (P,Q), P != Q: session(P).Decrypt(record(Q)) must fail; pairs whose key ids are literally equal under the naming scheme are counted as scheme-ambiguous; non-trivial = pairs with distinct key ids"
	toks := 3
	sigSeen := map[string]bool{}
	for _, sp := range [][2]string{{"s", "p"}, {"svc_x", "prod_y"}} {
		for _, sfx := range []string{"", "us-west-2"} {
			for _, cache := range []string{"session", "shared", "sessioncache", "none"} {
				if !r.Thorough() && cache == "none" {
					continue
				}
				if !r.TimeLeft() {
					r.Exhaustive = false
					r.Caps = append(r.Caps, "time budget")
					return
				}
				c06Run(c06Config{Service: sp[0], Product: sp[1], Suffix: sfx, Cache: cache, Tokens: toks}, r, sigSeen)
			}
		}
	}
	if r.Thorough() && r.TimeLeft() {
		c06Run(c06Config{Service: "s", Product: "p", Suffix: "us-west-2", Cache: "session", Tokens: 4}, r, sigSeen)
		c06Run(c06Config{Service: "s", Product: "p", Suffix: "", Cache: "session", Tokens: 4}, r, sigSeen)
	}
}
