package harness

import (
	"encoding/json"
	"fmt"
	"os"
	"sort"
	"strings"
	"time"

	"asherahverif/explore"
)

// Check describes one registered property check.
type Check struct {
	Level          string
	Run            func(r *Report)
	QuickBudget    int // seconds of internal wall-clock budget (exit 0 with exhaustive:false when hit)
	ThoroughBudget int
	// ReplayBody returns the harness body for a violation's harness name (schedule replays).
	ReplayBody func(harness string) explore.Body
	// ReplayOps re-executes an operation-list counterexample; returns failure messages.
	ReplayOps func(v *Viol) []string
}

// Checks is the registry, filled by init functions of the property files.
var Checks = map[string]*Check{}

func init() {
	Checks["C08"] = &Check{Level: "model_checking", Run: CheckC08, QuickBudget: 240, ThoroughBudget: 1500,
		ReplayBody: func(h string) explore.Body {
			for _, sc := range c08Scenarios(true) {
				if "C08/"+sc.name == h {
					sc := sc
					return sc.body
				}
			}
			return nil
		}}
}

func init() {
	Checks["C01"] = &Check{Level: "model_checking", Run: CheckK("C01", []string{"dec", "dec-of-revoked-ik", "dec-of-expired-ik", "dec-cross-process", "C01.records-rechecked"}), QuickBudget: 300, ThoroughBudget: 1800, ReplayOps: kReplay("C01")}
	Checks["C03"] = &Check{Level: "model_checking", Run: CheckK("C03", []string{"C03.enc-checked", "ik-created"}), QuickBudget: 300, ThoroughBudget: 1800, ReplayOps: kReplay("C03")}
	Checks["C04"] = &Check{Level: "model_checking", Run: CheckK("C04", []string{"enc", "ik-created", "C04.parent-sk-expired", "C04.parent-sk-expired-more-than-R"}), QuickBudget: 300, ThoroughBudget: 1800, ReplayOps: kReplay("C04")}
	Checks["C05"] = &Check{Level: "model_checking", Run: CheckK("C05", []string{"C05.ik-revoked", "C05.ik-revoked-more-than-R", "C05.parent-sk-revoked", "C05.parent-sk-revoked-more-than-2R", "C05.dec-under-revoked-chain"}), QuickBudget: 300, ThoroughBudget: 1800, ReplayOps: kReplay("C05")}
	Checks["C09"] = &Check{Level: "model_checking", Run: func(r *Report) {
		if child := os.Getenv("VHARNESS_CHILD"); strings.HasPrefix(child, "C09s/") {
			c09Schedules(r) // scenario child process: only that scenario
			return
		}
		CheckK("C09", []string{"restart", "C09.nocache-op", "C09.bounded-cache-states"})(r)
		rule := r.Rule
		CheckF("C09", fFaults{ms: true, kms: true, aead: true, alloc: true})(r)
		r.Level = "model_checking"
		r.Rule = rule + " || PLUS fault space: " + r.Rule
		c09Schedules(r)
		r.Rule += " || PLUS the release accounting (nothing live after close, released exactly once, never touched after release, evicted sessions torn down once) at the end of every interleaving of the session-cache schedule harnesses of C16 (G1, G2b) and the two-holder eviction scenario of C08"
	}, QuickBudget: 300, ThoroughBudget: 1800, ReplayOps: kReplay("C09"), ReplayBody: fReplayBody(fFaults{ms: true, kms: true, aead: true, alloc: true})}
}

func init() {
	Checks["C15"] = &Check{Level: "model_checking", Run: CheckC15, QuickBudget: 300, ThoroughBudget: 1800,
		ReplayOps: func(v *Viol) []string {
			var hist []string
			b, _ := json.Marshal(v.Ops)
			json.Unmarshal(b, &hist)
			for _, cfg := range c15Plan(true) {
				if "C15/"+cfg.name() == v.Harness {
					_, viols, _ := c15Run(cfg, hist)
					fmt.Println("history:", hist)
					var out []string
					for _, kv := range viols {
						out = append(out, kv.Sig+": "+kv.Msg)
					}
					return out
				}
			}
			return []string{"unknown configuration " + v.Harness}
		}}
}

func init() {
	Checks["C19"] = &Check{Level: "model_checking", Run: CheckC19, QuickBudget: 240, ThoroughBudget: 1500, ReplayOps: c19Replay,
		ReplayBody: func(h string) explore.Body {
			for _, sc := range c19SchedScenarios() {
				if "C19s/"+sc.name == h {
					sc := sc
					return sc.body
				}
			}
			return nil
		}}
}

func init() {
	Checks["C07"] = &Check{Level: "exploration", Run: CheckC07, QuickBudget: 240, ThoroughBudget: 1500}
}

func init() {
	Checks["C06"] = &Check{Level: "exploration", Run: CheckC06, QuickBudget: 240, ThoroughBudget: 1500}
}

func fReplayBody(ff fFaults) func(h string) explore.Body {
	return func(h string) explore.Body {
		for _, sc := range fScenarios(true) {
			if "F/"+sc.name+"/"+sc.op == h {
				return sc.body(ff)
			}
		}
		return nil
	}
}

func init() {
	all := fFaults{ms: true, kms: true, aead: true, alloc: true}
	Checks["C02"] = &Check{Level: "fault_enumeration", Run: CheckF("C02", fFaults{ms: true, kms: true}), QuickBudget: 240, ThoroughBudget: 1500, ReplayBody: fReplayBody(fFaults{ms: true, kms: true})}
	Checks["C10"] = &Check{Level: "fault_enumeration", Run: func(r *Report) {
		CheckF("C10", all)(r)
		r.Rule += " || PLUS the AWS KMS plugin product of C17 (every failing-region pattern), checking that GenerateDataKey / Decrypt plaintext handed to the plugins is zero after EncryptKey / DecryptKey return"
		n := 2
		if r.Thorough() {
			n = 3
		}
		awsSpace(r, "C10", n)
	}, QuickBudget: 240, ThoroughBudget: 1500, ReplayBody: fReplayBody(all)}
}

func init() {
	Checks["C20"] = &Check{Level: "model_checking", Run: CheckC20, QuickBudget: 300, ThoroughBudget: 1800,
		ReplayBody: func(h string) explore.Body {
			for _, sc := range c20SchedScenarios() {
				if "C20s/"+sc.name == h {
					sc := sc
					return sc.c20Body
				}
			}
			return nil
		}}
}

func init() {
	Checks["C14"] = &Check{Level: "model_checking", Run: CheckC14, QuickBudget: 300, ThoroughBudget: 1800,
		ReplayBody: func(h string) explore.Body {
			for _, sc := range c14Scenarios(true) {
				if "C14/"+sc.name == h {
					sc := sc
					return sc.body
				}
			}
			return nil
		}}
}

func init() {
	Checks["C16"] = &Check{Level: "model_checking", Run: CheckC16, QuickBudget: 300, ThoroughBudget: 1800,
		ReplayBody: func(h string) explore.Body {
			for _, sc := range c16Scenarios(true) {
				if "C16/"+sc.name == h {
					sc := sc
					return sc.body
				}
			}
			return nil
		}}
}

func init() {
	Checks["C12"] = &Check{Level: "fault_enumeration", Run: CheckC12, QuickBudget: 240, ThoroughBudget: 1500,
		ReplayBody: func(h string) explore.Body {
			for _, sc := range c12Scripts(true) {
				if "C12/"+sc.name == h {
					sc := sc
					return sc.body
				}
			}
			return nil
		}}
}

func init() {
	Checks["C11"] = &Check{Level: "model_checking", Run: CheckC11, QuickBudget: 300, ThoroughBudget: 1800,
		ReplayBody: func(h string) explore.Body {
			for _, sc := range c11Scenarios(true) {
				if "C11b/"+sc.name == h {
					sc := sc
					return sc.body
				}
			}
			return nil
		}}
}

func init() {
	Checks["C17"] = &Check{Level: "fault_enumeration", Run: CheckC17, QuickBudget: 240, ThoroughBudget: 1500}
}

func init() {
	Checks["C13"] = &Check{Level: "model_checking", Run: CheckC13, QuickBudget: 300, ThoroughBudget: 1800,
		ReplayBody: func(h string) explore.Body {
			switch h {
			case "C13s/memory-2-stores":
				return c13SchedBody(2, false)
			case "C13s/memory-2-stores-reader":
				return c13SchedBody(2, true)
			case "C13s/memory-3-stores":
				return c13SchedBody(3, false)
			}
			return nil
		}}
}

func init() {
	Checks["C18"] = &Check{Level: "exploration", Run: CheckC18, QuickBudget: 300, ThoroughBudget: 1800}
}

// kReplay re-executes an operation-history counterexample of the K space.
func kReplay(prop string) func(v *Viol) []string {
	return func(v *Viol) []string {
		cfg := kConfigByName(strings.TrimPrefix(v.Harness, "K/"))
		if cfg == nil {
			return []string{"unknown configuration " + v.Harness}
		}
		var hist []string
		b, _ := json.Marshal(v.Ops)
		json.Unmarshal(b, &hist)
		s, _, _ := kRun(cfg, hist, true, true)
		fmt.Println("history:", hist)
		var out []string
		for _, kv := range s.Viols {
			if kv.Prop == prop || kv.Prop == "*" {
				out = append(out, kv.Sig+": "+kv.Msg)
			}
		}
		return out
	}
}

// KDump prints the canonical state after a history (debugging aid).
func KDump(cfgName string, hist []string) {
	cfg := kConfigByName(cfgName)
	s, en, _ := kRun(cfg, hist, true, true)
	fmt.Println(s.Dump)
	fmt.Println("enabled:", en)
	for _, v := range s.Viols {
		fmt.Println("VIOL", v.Prop, v.Sig, v.Msg)
	}
	fmt.Println("counters:", s.Counters)
}

// Replay re-executes a recorded violation without any search.
func Replay(prop, path string) int {
	b, err := os.ReadFile(path)
	if err != nil {
		fmt.Println(err)
		return 2
	}
	var v Viol
	if err := json.Unmarshal(b, &v); err != nil {
		fmt.Println(err)
		return 2
	}
	chk := Checks[prop]
	if chk.ReplayBody != nil {
		if body := chk.ReplayBody(v.Harness); body != nil {
			x, _, fails := explore.Replay(explore.Config{Name: v.Harness}, body, v.Choices)
			for _, l := range x.Trace {
				fmt.Println(l)
			}
			if x.Diverged != "" {
				fmt.Println("REPLAY DIVERGED:", x.Diverged)
				return 2
			}
			if x.PanicVal != nil {
				fmt.Printf("panic: %v\n%s\n", x.PanicVal, x.PanicStack)
				fails = append(fails, "panic")
			}
			if x.Deadlock != "" {
				fmt.Println("deadlock:", x.Deadlock)
				fails = append(fails, "deadlock")
			}
			for _, f := range fails {
				fmt.Println("FAIL:", f)
			}
			if len(fails) > 0 {
				fmt.Printf("VIOLATION property=%s replay=%s\n", prop, path)
				return 1
			}
			fmt.Println("replay passed (violation not reproduced on this tree)")
			return 0
		}
	}
	if chk.ReplayOps != nil {
		fails := chk.ReplayOps(&v)
		for _, f := range fails {
			fmt.Println("FAIL:", f)
		}
		if len(fails) > 0 {
			fmt.Printf("VIOLATION property=%s replay=%s\n", prop, path)
			return 1
		}
		fmt.Println("replay passed (violation not reproduced on this tree)")
		return 0
	}
	fmt.Println("no replay available for", v.Harness)
	return 2
}

// RaceBodies lists the schedule-shaped harness bodies of a property for the free-running -race pass.
func RaceBodies(prop string) map[string]explore.Body {
	out := map[string]explore.Body{}
	switch prop {
	case "C08":
		for _, sc := range c08Scenarios(true) {
			sc := sc
			out[sc.name] = sc.body
		}
	case "C16":
		for _, sc := range c16Scenarios(true) {
			sc := sc
			out[sc.name] = sc.body
		}
	case "C11":
		for _, sc := range c11Scenarios(true) {
			sc := sc
			out[sc.name] = sc.body
		}
	case "C14":
		for _, sc := range c14Scenarios(true) {
			sc := sc
			out[sc.name] = sc.body
		}
	case "C13":
		out["memory-3-stores-reader"] = c13SchedBody(3, true)
	case "C15":
		out["async-caches"] = c15RaceBody
		for _, sc := range c15SchedScenarios(true) {
			sc := sc
			out[sc.name] = sc.body
		}
	}
	return out
}

// RaceMain runs every body of the property n times free-running (to be built with -race).
func RaceMain(prop string, n int) {
	bodies := RaceBodies(prop)
	names := make([]string, 0, len(bodies))
	for k := range bodies {
		names = append(names, k)
	}
	sort.Strings(names)
	total, panics := 0, 0
	for _, k := range names {
		panics += explore.FreeRun(bodies[k], n)
		total += n
	}
	fmt.Printf("RACE-PASS property=%s scenarios=%d executions=%d panics=%d\n", prop, len(names), total, panics)
}

// c09Schedules runs the schedule harnesses in which evictions race with users, keeping only the
// release-accounting failures (they belong to C09; the functional failures belong to C08 / C16).
func c09Schedules(r *Report) {
	accounting := func(sig string) bool {
		for _, p := range []string{"leak-after", "released-twice", "use-after-destroy", "evicted-session-not-torn-down", "torn-down-twice", "threads-left-after-factory-close"} {
			if strings.HasPrefix(sig, p) {
				return true
			}
		}
		return false
	}
	type item struct {
		name string
		body explore.Body
	}
	var items []item
	for _, sc := range c16Scenarios(false) {
		if strings.HasPrefix(sc.name, "G1-evict-while-held-slru") || strings.HasPrefix(sc.name, "G2b-churn") {
			sc := sc
			items = append(items, item{"C09s/" + sc.name, sc.body})
		}
	}
	for _, sc := range c08Scenarios(false) {
		if sc.name == "H6-session-cache-2holders" {
			sc := sc
			items = append(items, item{"C09s/" + sc.name, sc.body})
		}
	}
	names := make([]string, len(items))
	byName := map[string]explore.Body{}
	for i, it := range items {
		names[i] = it.name
		byName[it.name] = it.body
	}
	bound := 1
	if r.Thorough() {
		bound = 2
	}
	r.RunScenarios(names, func(r *Report, name string) {
		t0 := time.Now()
		cfg := explore.Config{Name: name, Preemptions: bound, Deviations: 0, HBCache: true, Deadline: r.Deadline, MaxViolations: 5, SigFilter: accounting}
		res := explore.Explore(cfg, byName[name])
		r.AddExplore(res, fmt.Sprintf("preemption bound %d", bound), time.Since(t0).Seconds())
	})
}
