package harness

import (
	"encoding/json"
	"fmt"
	"os"

	"asherahverif/explore"
)

// Check describes one registered property check.
type Check struct {
	Level          string
	Run            func(r *Report)
	QuickBudget    int // seconds of internal wall-clock budget (exit 0 with exhaustive:false when hit)
	ThoroughBudget int
	// ReplayBody returns the harness body for a violation's harness name (schedule replays).
	ReplayBody func(harness string) explore.Body
	// ReplayOps re-executes an operation-list counterexample; returns failure messages.
	ReplayOps func(v *Viol) []string
}

// Checks is the registry, filled by init functions of the property files.
var Checks = map[string]*Check{}

func init() {
	Checks["C08"] = &Check{Level: "model_checking", Run: CheckC08, QuickBudget: 240, ThoroughBudget: 1500,
		ReplayBody: func(h string) explore.Body {
			for _, sc := range c08Scenarios(true) {
				if "C08/"+sc.name == h {
					sc := sc
					return sc.body
				}
			}
			return nil
		}}
}

// Replay re-executes a recorded violation without any search.
func Replay(prop, path string) int {
	b, err := os.ReadFile(path)
	if err != nil {
		fmt.Println(err)
		return 2
	}
	var v Viol
	if err := json.Unmarshal(b, &v); err != nil {
		fmt.Println(err)
		return 2
	}
	chk := Checks[prop]
	if chk.ReplayBody != nil {
		if body := chk.ReplayBody(v.Harness); body != nil {
			x, _, fails := explore.Replay(explore.Config{Name: v.Harness}, body, v.Choices)
			for _, l := range x.Trace {
				fmt.Println(l)
			}
			if x.Diverged != "" {
				fmt.Println("REPLAY DIVERGED:", x.Diverged)
				return 2
			}
			if x.PanicVal != nil {
				fmt.Printf("panic: %v\n%s\n", x.PanicVal, x.PanicStack)
				fails = append(fails, "panic")
			}
			if x.Deadlock != "" {
				fmt.Println("deadlock:", x.Deadlock)
				fails = append(fails, "deadlock")
			}
			for _, f := range fails {
				fmt.Println("FAIL:", f)
			}
			if len(fails) > 0 {
				fmt.Printf("VIOLATION property=%s replay=%s\n", prop, path)
				return 1
			}
			fmt.Println("replay passed (violation not reproduced on this tree)")
			return 0
		}
	}
	if chk.ReplayOps != nil {
		fails := chk.ReplayOps(&v)
		for _, f := range fails {
			fmt.Println("FAIL:", f)
		}
		if len(fails) > 0 {
			fmt.Printf("VIOLATION property=%s replay=%s\n", prop, path)
			return 1
		}
		fmt.Println("replay passed (violation not reproduced on this tree)")
		return 0
	}
	fmt.Println("no replay available for", v.Harness)
	return 2
}
