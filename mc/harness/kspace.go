package harness

import (
	"bytes"
	"crypto/sha256"
	"fmt"
	"reflect"
	"sort"
	"strconv"
	"strings"
	"time"

	ae "github.com/godaddy/asherah/go/appencryption"
	aelog "github.com/godaddy/asherah/go/appencryption/pkg/log"

	"asherahverif/doubles"
	"asherahverif/ref"
	"asherahverif/shim/vclock"
	"asherahverif/shim/vrand"
	"asherahverif/shim/vsched"
	"asherahverif/walker"
)

// ---------------------------------------------------------------------------------
// The shared state space K (DESIGN.md section 6): two processes F1 (configuration under
// test) and F2 (default policy) over one spy metastore + KMS, driven by histories of
// enc / dec / tick / revoke / restart / close operations under the virtual clock.
// ---------------------------------------------------------------------------------

type kRecord struct {
	Part      string
	IKCreated int64
	Payload   []byte
	DRR       *ae.DataRowRecord
	ByF       int
	Seq       int
}

type kFactory struct {
	idx   int // 0 = F1, 1 = F2
	spec  PolicySpec
	gen   int
	tf    *doubles.TrackFactory
	allTF []*doubles.TrackFactory // factories of earlier generations (accounting after restart)
	aead  *doubles.SpyAEAD
	aeads []*doubles.SpyAEAD
	f     *ae.SessionFactory
	sess  map[string]*ae.Session
}

type kWorld struct {
	reg   *doubles.KeyRegistry
	ms    *doubles.SpyMetastore
	kms   *doubles.SpyKMS
	F     [2]*kFactory
	recs  map[string][]*kRecord // per partition, in creation order
	nenc  int
	logs  []string
	parts []string
	// unwraps[factory#gen][sk created] = times of KMS.DecryptKey
	payloads [][]byte
	// cacheOps[factory idx][partition] = kinds of the operations served by the long-lived IK cache
	// of that partition since it was created (reset by restart / close); used to classify findings
	cacheOps [2]map[string][]string
}

type kLogger struct{ w *kWorld }

func (l kLogger) Debugf(format string, v ...interface{}) {
	l.w.logs = append(l.w.logs, fmt.Sprintf(format, v...))
}

var kPayloads = [][]byte{
	{},
	{0x7f},
	[]byte("thirty-three distinctive bytes!!\xff"),
}

func newKWorld(spec1 PolicySpec) *kWorld {
	w := &kWorld{reg: doubles.NewKeyRegistry(), ms: doubles.NewSpyMetastore(), kms: doubles.NewSpyKMS(), recs: map[string][]*kRecord{}, parts: []string{"A", "B"}}
	w.F[0] = &kFactory{idx: 0, spec: spec1}
	w.F[1] = &kFactory{idx: 1, spec: SpecDefault}
	for _, f := range w.F {
		w.start(f)
	}
	w.cacheOps = [2]map[string][]string{{}, {}}
	aelog.SetLogger(kLogger{w})
	return w
}

func (w *kWorld) start(f *kFactory) {
	f.gen++
	f.tf = doubles.NewTrackFactoryShared(w.reg, fmt.Sprintf("F%d#%d", f.idx+1, f.gen))
	f.allTF = append(f.allTF, f.tf)
	f.aead = doubles.NewSpyAEAD(f.tf)
	f.aeads = append(f.aeads, f.aead)
	f.sess = map[string]*ae.Session{}
	f.f = ae.NewSessionFactory(&ae.Config{Service: "s", Product: "p", Policy: f.spec.Build()}, w.ms, w.kms, f.aead, ae.WithSecretFactory(f.tf))
}

func (w *kWorld) who(f *kFactory) {
	name := fmt.Sprintf("F%d#%d", f.idx+1, f.gen)
	w.ms.Who = name
	w.kms.Who = name
}

// kStep is what the oracles see of one executed operation.
type kStep struct {
	Op      string
	Kind    string
	F       *kFactory
	LongLived bool
	Part    string
	Rec     *kRecord // decrypted record / produced record
	Payload []byte
	Out     []byte
	Err     error
	Panic   string
	T       int64
	msFrom, kmsFrom, aeadFrom, secFrom, logFrom int
	rowsBefore map[string]bool
	CacheOpsBefore []string
}

func (w *kWorld) session(f *kFactory, long bool, part string) (*ae.Session, func()) {
	if long {
		if s, ok := f.sess[part]; ok {
			return s, func() {}
		}
		s, err := f.f.GetSession(part)
		if err != nil {
			panic(err)
		}
		f.sess[part] = s
		return s, func() {}
	}
	s, err := f.f.GetSession(part)
	if err != nil {
		panic(err)
	}
	return s, func() { s.Close() }
}

func rowKey(id string, created int64) string { return id + "/" + strconv.FormatInt(created, 10) }

// apply executes one operation of the alphabet and runs the world to quiescence.
func (w *kWorld) apply(op string) *kStep {
	st := &kStep{Op: op, T: vclock.Unix()}
	f := strings.Split(op, ":")
	st.Kind = f[0]
	st.msFrom, st.kmsFrom, st.logFrom = len(w.ms.Calls), len(w.kms.Calls), len(w.logs)
	st.rowsBefore = map[string]bool{}
	for _, r := range w.ms.SortedRows() {
		st.rowsBefore[rowKey(r.ID, r.Created)] = true
	}
	switch f[0] {
	case "enc": // enc:F:L|N:part
		kf := w.F[atoi(f[1])-1]
		st.F, st.LongLived, st.Part = kf, f[2] == "L", f[3]
		st.aeadFrom, st.secFrom = len(kf.aead.Calls), len(kf.tf.Secrets)
		w.who(kf)
		pl := kPayloads[w.nenc%len(kPayloads)]
		w.nenc++
		st.Payload = append([]byte(nil), pl...)
		// the caller's payload sits in a larger scratch buffer (spare capacity behind it), as append-built slices do
		scratch := make([]byte, len(pl)+96)
		for i := range scratch {
			scratch[i] = 0x5A
		}
		arg := scratch[:len(pl):len(scratch)]
		copy(arg, pl)
		st.Panic = safe(func() {
			s, done := w.session(kf, st.LongLived, st.Part)
			defer done()
			drr, err := s.Encrypt(ctx, arg)
			st.Err = err
			if err == nil {
				if drr == nil || drr.Key == nil || drr.Key.ParentKeyMeta == nil {
					st.Err = fmt.Errorf("encrypt returned a malformed record: %+v", drr)
					return
				}
				st.Rec = &kRecord{Part: st.Part, IKCreated: drr.Key.ParentKeyMeta.Created, Payload: st.Payload, DRR: drr, ByF: kf.idx, Seq: w.nenc}
			}
		})
		if !bytes.Equal(arg, st.Payload) && st.Panic == "" && st.Err == nil {
			st.Err = fmt.Errorf("C01: encrypt modified the caller's payload")
		}
		if st.Panic == "" && st.Err == nil && st.Rec != nil {
			// the caller goes on using its buffer: nothing of that may show up in (or change) the record it was handed
			before := append([]byte(nil), st.Rec.DRR.Data...)
			for i := range scratch {
				scratch[i] = 0xC3
			}
			if !bytes.Equal(before, st.Rec.DRR.Data) {
				st.Err = fmt.Errorf("C01: the returned record shares storage with the caller's payload buffer (writing to the buffer after Encrypt returned changed DataRowRecord.Data)")
			}
		}
		if st.Rec != nil {
			w.recs[st.Part] = append(w.recs[st.Part], st.Rec)
		}
		st.CacheOpsBefore = append([]string(nil), w.cacheOps[kf.idx][st.Part]...)
		if st.LongLived || kf.spec.SharedIK {
			// "enc+latest": this encrypt went to the metastore for the latest intermediate key (the path that validates the
			// parent system key); plain "enc": it was served by the cache
			kind := "enc"
			ikID := ref.IntermediateKeyID(st.Part, "s", "p", "")
			for _, cl := range w.ms.Calls[st.msFrom:] {
				if cl.Op == "LoadLatest" && cl.ID == ikID {
					kind = "enc+latest"
				}
			}
			w.cacheOps[kf.idx][st.Part] = append(w.cacheOps[kf.idx][st.Part], kind)
		}
	case "dec": // dec:F:L|N:part:old|new
		kf := w.F[atoi(f[1])-1]
		st.F, st.LongLived, st.Part = kf, f[2] == "L", f[3]
		st.aeadFrom, st.secFrom = len(kf.aead.Calls), len(kf.tf.Secrets)
		w.who(kf)
		rs := w.recs[st.Part]
		rec := rs[len(rs)-1]
		if f[4] == "old" {
			rec = rs[0]
		}
		st.Rec = rec
		arg := cloneDRR(rec.DRR)
		st.Panic = safe(func() {
			s, done := w.session(kf, st.LongLived, st.Part)
			defer done()
			st.Out, st.Err = s.Decrypt(ctx, *arg)
		})
		if st.Panic == "" && !drrEqual(arg, rec.DRR) {
			st.Err = fmt.Errorf("C01: decrypt modified the caller's record")
		}
		if st.LongLived || kf.spec.SharedIK {
			// "dec+insert": the intermediate key was not in the cache and was put there by this exact (id, created) lookup;
			// "dec+reload": a stale entry was re-read by the exact lookup; plain "dec": served by the cache
			kind := "dec"
			ikID := ref.IntermediateKeyID(st.Part, "s", "p", "")
			loaded := false
			for _, cl := range w.ms.Calls[st.msFrom:] {
				if cl.Op == "Load" && cl.ID == ikID {
					loaded = true
				}
			}
			if loaded {
				kind = "dec+reload"
				for _, l := range w.logs[st.logFrom:] {
					if strings.Contains(l, " miss -- id: "+ikID) {
						kind = "dec+insert"
					}
				}
			}
			w.cacheOps[kf.idx][st.Part] = append(w.cacheOps[kf.idx][st.Part], kind)
		}
	case "tick":
		vclock.Advance(time.Duration(atoi(f[1])) * time.Second)
	case "revIK":
		id := ref.IntermediateKeyID(f[1], "s", "p", "")
		if r := w.ms.Latest(id); r != nil {
			w.ms.Revoke(id, r.Created)
		}
	case "revSK":
		id := ref.SystemKeyID("s", "p", "")
		if r := w.ms.Latest(id); r != nil {
			w.ms.Revoke(id, r.Created)
		}
	case "restart":
		kf := w.F[atoi(f[1])-1]
		st.F = kf
		st.Panic = safe(func() {
			for _, p := range sortedKeys(kf.sess) {
				kf.sess[p].Close()
			}
			kf.f.Close()
		})
		vsched.Quiesce()
		w.cacheOps[kf.idx] = map[string][]string{}
		st.secFrom = -1 // marker: accounting of the closed generation happens in the oracle
		old := kf.tf
		w.start(kf)
		_ = old
	case "close":
		kf := w.F[atoi(f[1])-1]
		st.F, st.Part = kf, f[2]
		st.Panic = safe(func() { kf.sess[f[2]].Close() })
		delete(kf.sess, f[2])
		if !kf.spec.SharedIK {
			delete(w.cacheOps[kf.idx], f[2])
		}
	default:
		panic("bad op " + op)
	}
	vsched.Quiesce()
	return st
}

func atoi(s string) int {
	n, err := strconv.Atoi(s)
	if err != nil {
		panic(err)
	}
	return n
}

func sortedKeys[V any](m map[string]V) []string {
	ks := make([]string, 0, len(m))
	for k := range m {
		ks = append(ks, k)
	}
	sort.Strings(ks)
	return ks
}

// KAlphabet describes which operations a configuration explores.
type KAlphabet struct {
	Ticks    []int
	Full     bool // F2 and N-sessions get the complete menu
	OneParty bool // only partition A is encrypted/decrypted by F1 (B only through F2) - used by the fastest tier
	// Narrow: one long-lived session of partition A (encrypt, decrypt newest / oldest), per-request encrypts of partition B
	// (they age the system key relative to A's intermediate key), clock ticks and revocations: a small menu for deep histories.
	Narrow bool
}

// enabled lists the operations applicable in the current state, simplest first.
func (w *kWorld) enabled(a KAlphabet) []string {
	var ops []string
	if a.Narrow {
		ops = append(ops, "enc:1:L:A")
		if len(w.recs["A"]) > 0 {
			ops = append(ops, "dec:1:L:A:new")
			if w.recs["A"][0].IKCreated != w.recs["A"][len(w.recs["A"])-1].IKCreated {
				ops = append(ops, "dec:1:L:A:old")
			}
		}
		for _, t := range a.Ticks {
			ops = append(ops, fmt.Sprintf("tick:%d", t))
		}
		ops = append(ops, "enc:1:N:B")
		if r := w.ms.Latest(ref.IntermediateKeyID("A", "s", "p", "")); r != nil && !r.Rec.Revoked {
			ops = append(ops, "revIK:A")
		}
		if r := w.ms.Latest(ref.SystemKeyID("s", "p", "")); r != nil && !r.Rec.Revoked {
			ops = append(ops, "revSK")
		}
		return ops
	}
	for _, p := range w.parts {
		ops = append(ops, "enc:1:L:"+p)
	}
	for _, p := range w.parts {
		if len(w.recs[p]) > 0 {
			ops = append(ops, "dec:1:L:"+p+":new")
			if w.recs[p][0].IKCreated != w.recs[p][len(w.recs[p])-1].IKCreated {
				ops = append(ops, "dec:1:L:"+p+":old")
			}
		}
	}
	for _, t := range a.Ticks {
		ops = append(ops, fmt.Sprintf("tick:%d", t))
	}
	for _, p := range w.parts {
		if r := w.ms.Latest(ref.IntermediateKeyID(p, "s", "p", "")); r != nil && !r.Rec.Revoked {
			ops = append(ops, "revIK:"+p)
		}
	}
	if r := w.ms.Latest(ref.SystemKeyID("s", "p", "")); r != nil && !r.Rec.Revoked {
		ops = append(ops, "revSK")
	}
	for _, p := range w.parts {
		ops = append(ops, "enc:1:N:"+p)
	}
	for _, p := range w.parts {
		if len(w.recs[p]) > 0 {
			ops = append(ops, "dec:1:N:"+p+":new")
		}
	}
	ops = append(ops, "enc:2:N:A")
	if a.Full {
		ops = append(ops, "enc:2:N:B", "enc:2:L:A")
		for _, p := range w.parts {
			if len(w.recs[p]) > 0 {
				ops = append(ops, "dec:2:N:"+p+":new", "dec:2:L:"+p+":new")
				if w.recs[p][0].IKCreated != w.recs[p][len(w.recs[p])-1].IKCreated {
					ops = append(ops, "dec:1:N:"+p+":old", "dec:2:N:"+p+":old")
				}
			}
		}
		ops = append(ops, "restart:2")
	}
	ops = append(ops, "restart:1")
	for _, p := range sortedKeys(w.F[0].sess) {
		ops = append(ops, "close:1:"+p)
	}
	return ops
}

// roles maps key identities to the metastore row that holds them ("SK/<created>",
// "IK:<part>/<created>"); everything else is a data key.
func (w *kWorld) roles() map[int]string {
	out := map[int]string{}
	skID := ref.SystemKeyID("s", "p", "")
	skBytes := map[int64][]byte{}
	for c, r := range w.ms.Rows[skID] {
		if b, err := w.kms.Unwrap(r.Rec.EncryptedKey); err == nil {
			skBytes[c] = b
			if id := w.reg.IDOf(b); id != 0 {
				out[id] = fmt.Sprintf("SK/%d", c)
			}
		}
	}
	for _, p := range w.parts {
		id := ref.IntermediateKeyID(p, "s", "p", "")
		for c, r := range w.ms.Rows[id] {
			if r.Rec.ParentKeyMeta == nil {
				continue
			}
			sk := skBytes[r.Rec.ParentKeyMeta.Created]
			if sk == nil {
				continue
			}
			if b, err := ref.Open(r.Rec.EncryptedKey, sk); err == nil {
				if kid := w.reg.IDOf(b); kid != 0 {
					out[kid] = fmt.Sprintf("IK:%s/%d", p, c)
				}
			}
		}
	}
	return out
}

var (
	trackSecretType = reflect.TypeOf(&doubles.TrackSecret{})
)

// stateDump renders the canonical state and collects the secrets reachable from the SDK objects.
func (w *kWorld) stateDump() (string, map[*doubles.TrackSecret]string) {
	roles := w.roles()
	reach := map[*doubles.TrackSecret]string{}
	owner, nOwner := "outside any key cache", 0
	special := func(v reflect.Value) (string, bool) {
		t := v.Type()
		if t == trackSecretType {
			if v.IsNil() {
				return "nil", true
			}
			s := v.Interface().(*doubles.TrackSecret)
			if _, ok := reach[s]; !ok {
				reach[s] = owner
			}
			role := roles[s.KeyID]
			if role == "" {
				role = "DRK"
			}
			return fmt.Sprintf("S(%s,closed=%v,readers=%d)", role, s.Closed, s.Readers), true
		}
		if t.Kind() == reflect.Ptr && t.Elem().PkgPath() == "asherahverif/doubles" {
			return "ext:" + t.Elem().Name(), true
		}
		if t.Kind() == reflect.Struct {
			switch t.PkgPath() {
			case "asherahverif/shim/vsync":
				if t.Name() == "Once" {
					return fmt.Sprintf("Once(%v)", v.FieldByName("Done_").Bool()), true
				}
				return "~", true
			case "asherahverif/shim/vatomic":
				f := v.FieldByName("v")
				if f.IsValid() && f.Kind() == reflect.Struct && f.NumField() > 0 {
					// atomic.Int64{_ noCopy; _ align64; v int64}
					last := f.Field(f.NumField() - 1)
					switch last.Kind() {
					case reflect.Int64, reflect.Int32:
						return fmt.Sprintf("a%d", last.Int()), true
					case reflect.Uint32, reflect.Uint64:
						return fmt.Sprintf("a%d", last.Uint()), true
					}
				}
				return "a?", true
			case "asherahverif/shim/vsched":
				return "~", true
			}
		}
		return "", false
	}
	wk := walker.New(special)
	wk.OnPointer = func(v reflect.Value, path string) {
		// secrets met while walking inside a cache container (anything with the cache.Interface method set:
		// the simple map cache or the policy cache) belong to that cache instance
		if _, ok := v.Type().MethodByName("GetOrPanic"); ok {
			if _, ok2 := v.Type().MethodByName("Capacity"); ok2 {
				nOwner++
				owner = fmt.Sprintf("cache#%d", nOwner)
			}
		}
	}
	wk.Raw(fmt.Sprintf("now=%d", vclock.Unix()))
	for _, f := range w.F {
		wk.Root(fmt.Sprintf("F%d", f.idx+1), f.f)
		for _, p := range sortedKeys(f.sess) {
			wk.Root(fmt.Sprintf("F%d.sess.%s", f.idx+1, p), f.sess[p])
		}
	}
	for _, r := range w.ms.SortedRows() {
		pm := "-"
		if r.Rec.ParentKeyMeta != nil {
			pm = fmt.Sprintf("%s/%d", r.Rec.ParentKeyMeta.ID, r.Rec.ParentKeyMeta.Created)
		}
		wk.Raw(fmt.Sprintf("row %s/%d rev=%v revAt=%d parent=%s", r.ID, r.Created, r.Rec.Revoked, r.RevokedAt, pm))
	}
	for _, p := range w.parts {
		rs := w.recs[p]
		if len(rs) > 0 {
			wk.Raw(fmt.Sprintf("recs %s old=%d new=%d", p, rs[0].IKCreated, rs[len(rs)-1].IKCreated))
		}
	}
	wk.Raw(fmt.Sprintf("nencmod=%d", w.nenc%len(kPayloads)))
	// ghost for C20: last KMS unwrap per (factory generation, ciphertext) within the last interval
	return wk.String(), reach
}

func hashKey(s string) [16]byte {
	h := sha256.Sum256([]byte(s))
	var k [16]byte
	copy(k[:], h[:16])
	return k
}

// table converts the spy metastore into the reference implementation's own table type.
func (w *kWorld) table() ref.Table {
	t := ref.Table{}
	for id, byC := range w.ms.Rows {
		t[id] = map[int64]*ref.KeyRecord{}
		for c, r := range byC {
			kr := &ref.KeyRecord{Revoked: r.Rec.Revoked, Created: r.Rec.Created, Key: append([]byte(nil), r.Rec.EncryptedKey...)}
			if r.Rec.ParentKeyMeta != nil {
				kr.ParentKeyMeta = &ref.KeyMeta{KeyId: r.Rec.ParentKeyMeta.ID, Created: r.Rec.ParentKeyMeta.Created}
			}
			t[id][c] = kr
		}
	}
	return t
}

func toRefRow(d *ae.DataRowRecord) *ref.DataRow {
	if d == nil {
		return nil
	}
	r := &ref.DataRow{Data: d.Data}
	if d.Key != nil {
		r.Key = &ref.KeyRecord{Created: d.Key.Created, Key: d.Key.EncryptedKey, Revoked: d.Key.Revoked}
		if d.Key.ParentKeyMeta != nil {
			r.Key.ParentKeyMeta = &ref.KeyMeta{KeyId: d.Key.ParentKeyMeta.ID, Created: d.Key.ParentKeyMeta.Created}
		}
	}
	return r
}

// classReps returns one record per (partition, IK created) class plus the newest of each partition.
func (w *kWorld) classReps() []*kRecord {
	var out []*kRecord
	for _, p := range w.parts {
		seen := map[int64]bool{}
		rs := w.recs[p]
		for i, r := range rs {
			if !seen[r.IKCreated] || i == len(rs)-1 {
				seen[r.IKCreated] = true
				out = append(out, r)
			}
		}
	}
	return out
}

// resetGlobals puts every process-global the execution depends on back to its start value.
func resetGlobals() {
	vclock.Reset()
	vrand.Reset()
}
