package harness

import (
	"bytes"
	"fmt"
	"sort"
	"time"

	ae "github.com/godaddy/asherah/go/appencryption"
	"github.com/godaddy/asherah/go/appencryption/pkg/persistence"
	dynv1 "github.com/godaddy/asherah/go/appencryption/plugins/aws-v1/persistence"
	dynv2 "github.com/godaddy/asherah/go/appencryption/plugins/aws-v2/dynamodb/metastore"

	"asherahverif/doubles"
)

// ---------------------------------------------------------------------------------
// C07 at the storage level: the key rows are corrupted in the form the real metastores keep them (the JSON text of
// the SQL key_record column, the attribute map of a DynamoDB item), so that the decoders of the SQL metastore and of
// both DynamoDB plugins are on the path. For every corruption of every key row a cold factory decrypts a genuine
// record: the original payload or an error, never other bytes, never a panic.
// ---------------------------------------------------------------------------------

type c07Backend struct {
	name  string
	build func() (ae.Metastore, func() []rowMutation)
}

func c07JSONCorruptions(orig string) map[string]string {
	out := map[string]string{}
	for n := 0; n < len(orig); n++ {
		out[fmt.Sprintf("truncated-%03d", n)] = orig[:n]
	}
	for n := 0; n < len(orig); n++ {
		out[fmt.Sprintf("char-deleted-%03d", n)] = orig[:n] + orig[n+1:]
	}
	for name, v := range map[string]string{
		"null": "null", "empty-object": "{}", "array": "[]", "string": `"x"`, "number": "123", "empty": "", "garbage": "\x00\xff{",
		"key-number":      `{"Key":123,"Created":1}`,
		"key-not-base64":  `{"Key":"!!!not base64!!!","Created":1}`,
		"key-null":        `{"Key":null,"Created":1}`,
		"key-empty":       `{"Key":"","Created":1}`,
		"created-string":  `{"Key":"AAAA","Created":"x"}`,
		"created-huge":    `{"Key":"AAAA","Created":1e99}`,
		"parent-null":     `{"Key":"AAAA","Created":1,"ParentKeyMeta":null}`,
		"parent-empty":    `{"Key":"AAAA","Created":1,"ParentKeyMeta":{}}`,
		"parent-string":   `{"Key":"AAAA","Created":1,"ParentKeyMeta":"x"}`,
		"parent-id-num":   `{"Key":"AAAA","Created":1,"ParentKeyMeta":{"KeyId":5,"Created":1}}`,
		"revoked-string":  `{"Key":"AAAA","Created":1,"Revoked":"yes"}`,
		"two-values":      orig + orig,
		"trailing-garbage": orig + "}",
		"nested-deep":     `{"Key":{"Key":{"Key":{}}}}`,
	} {
		out[name] = v
	}
	return out
}

func c07SQLBackend(dialect string, t persistence.SQLMetastoreDBType) c07Backend {
	return c07Backend{name: "sql-" + dialect, build: func() (ae.Metastore, func() []rowMutation) {
		eng := doubles.NewFakeSQL(dialect)
		ms := persistence.NewSQLMetastore(eng.Open(), persistence.WithSQLMetastoreDBType(t))
		return ms, func() []rowMutation {
			var muts []rowMutation
			for i, row := range eng.Tables["encryption_key"].Rows {
				row := row
				orig, _ := row["key_record"].(string)
				tag := fmt.Sprintf("%v#%d", row["id"], i)
				cs := c07JSONCorruptions(orig)
				var names []string
				for n := range cs {
					names = append(names, n)
				}
				sort.Strings(names)
				for _, n := range names {
					v := cs[n]
					muts = append(muts, rowMutation{fmt.Sprintf("sql-key_record-%s [%s]", n, tag), func() func() {
						row["key_record"] = v
						return func() { row["key_record"] = orig }
					}})
				}
			}
			return muts
		}
	}}
}

func c07DynamoMutations(fake *doubles.FakeDynamo, table string) []rowMutation {
	var muts []rowMutation
	str := func(s string) *doubles.AV { return &doubles.AV{S: &s} }
	num := func(s string) *doubles.AV { return &doubles.AV{N: &s} }
	for i, item := range fake.Tables[table].Items {
		item := item
		tag := fmt.Sprintf("item#%d", i)
		orig := item["KeyRecord"]
		set := func(name string, v *doubles.AV) {
			muts = append(muts, rowMutation{fmt.Sprintf("dynamo-%s [%s]", name, tag), func() func() {
				if v == nil {
					delete(item, "KeyRecord")
				} else {
					item["KeyRecord"] = v
				}
				return func() { item["KeyRecord"] = orig }
			}})
		}
		// clone of the genuine KeyRecord map with one attribute replaced / removed
		with := func(attr string, v *doubles.AV) *doubles.AV {
			m := map[string]*doubles.AV{}
			for k, x := range orig.M {
				m[k] = x
			}
			if v == nil {
				delete(m, attr)
			} else {
				m[attr] = v
			}
			return &doubles.AV{M: m}
		}
		set("keyrecord-missing", nil)
		set("keyrecord-string", str("x"))
		set("keyrecord-null", &doubles.AV{NULL: true})
		set("keyrecord-empty-map", &doubles.AV{M: map[string]*doubles.AV{}})
		set("keyrecord-list", &doubles.AV{L: []*doubles.AV{str("x")}})
		set("keyrecord-number", num("5"))
		for _, attr := range []string{"Key", "Created", "ParentKeyMeta", "Revoked"} {
			set("keyrecord-without-"+attr, with(attr, nil))
			set("keyrecord-"+attr+"-null", with(attr, &doubles.AV{NULL: true}))
			set("keyrecord-"+attr+"-string", with(attr, str("zzz")))
			set("keyrecord-"+attr+"-number", with(attr, num("7")))
			set("keyrecord-"+attr+"-empty-map", with(attr, &doubles.AV{M: map[string]*doubles.AV{}}))
			set("keyrecord-"+attr+"-binary", with(attr, &doubles.AV{B: []byte{1, 2, 3}}))
		}
		set("keyrecord-Key-empty-string", with("Key", str("")))
		set("keyrecord-Key-not-base64", with("Key", str("!!!not base64!!!")))
		set("keyrecord-Created-not-a-number", with("Created", num("12x")))
		set("keyrecord-Created-huge", with("Created", num("99999999999999999999999999")))
		if pm := orig.M["ParentKeyMeta"]; pm != nil && pm.M != nil {
			for _, attr := range []string{"KeyId", "Created"} {
				for vn, v := range map[string]*doubles.AV{"missing": nil, "null": {NULL: true}, "string": str("zzz"), "number": num("7"), "map": {M: map[string]*doubles.AV{}}} {
					m := map[string]*doubles.AV{}
					for k, x := range pm.M {
						m[k] = x
					}
					if v == nil {
						delete(m, attr)
					} else {
						m[attr] = v
					}
					set("parentmeta-"+attr+"-"+vn, with("ParentKeyMeta", &doubles.AV{M: m}))
				}
			}
		}
	}
	return muts
}

func c07Backends() []c07Backend {
	out := []c07Backend{c07SQLBackend("mysql", persistence.MySQL), c07SQLBackend("postgres", persistence.Postgres)}
	out = append(out, c07Backend{name: "dynamodb-v1", build: func() (ae.Metastore, func() []rowMutation) {
		fake := doubles.NewFakeDynamo("us-west-2", "EncryptionKey")
		ms := dynv1.NewDynamoDBMetastore(c13Session(), dynv1.WithClient(doubles.DynamoV1{F: fake}))
		return ms, func() []rowMutation { return c07DynamoMutations(fake, "EncryptionKey") }
	}})
	out = append(out, c07Backend{name: "dynamodb-v2", build: func() (ae.Metastore, func() []rowMutation) {
		fake := doubles.NewFakeDynamo("us-west-2", "EncryptionKey")
		ms, err := dynv2.NewDynamoDB(dynv2.WithDynamoDBClient(doubles.DynamoV2{F: fake}))
		if err != nil {
			panic(err)
		}
		return ms, func() []rowMutation { return c07DynamoMutations(fake, "EncryptionKey") }
	}})
	return out
}

// c07Storage runs the storage-level corruption series; add reports a failure.
func c07Storage(r *Report, add func(v *kViol, ops interface{}, spec string)) {
	for _, be := range c07Backends() {
		t0 := time.Now()
		resetGlobals()
		w := NewWorld()
		ms, mutsOf := be.build()
		mk := func() *ae.SessionFactory {
			return ae.NewSessionFactory(&ae.Config{Service: "s", Product: "p", Policy: SpecDefault.Build()}, ms, w.KMS, w.AEAD, ae.WithSecretFactory(w.TF))
		}
		f := mk()
		s, _ := f.GetSession("A")
		pay := []byte("storage-level-payload")
		rec, err := s.Encrypt(ctx, append([]byte(nil), pay...))
		if err != nil {
			r.MachineryError = fmt.Sprintf("C07 storage set-up over %s: %v", be.name, err)
			return
		}
		// sanity: a cold factory decrypts it
		cold := func() (out []byte, err error, pan string) {
			ff := mk()
			ss, _ := ff.GetSession("A")
			pan = safe(func() { out, err = ss.Decrypt(ctx, *cloneDRR(rec)) })
			ss.Close()
			ff.Close()
			return
		}
		if out, err, pan := cold(); err != nil || pan != "" || !bytes.Equal(out, pay) {
			// (C01's business; the corruption series still runs so that panics / wrong bytes are reported)
			r.Vacuous = append(r.Vacuous, fmt.Sprintf("C07/storage-%s: a cold factory cannot decrypt the genuine record: %v %s", be.name, err, pan))
		}
		muts := mutsOf()
		n := 0
		for _, m := range muts {
			undo := m.apply()
			out, err, pan := cold()
			// the warm session too (its keys are cached: must keep working or fail cleanly)
			var wout []byte
			var werr error
			wpan := safe(func() { wout, werr = s.Decrypt(ctx, *cloneDRR(rec)) })
			undo()
			n += 2
			switch {
			case pan != "":
				add(&kViol{Prop: "C07", Sig: "panic:storage-corruption:" + be.name, Msg: fmt.Sprintf("%s over %s: Decrypt on a cold factory panicked: %s", m.name, be.name, pan)}, []string{be.name, m.name}, "storage")
			case err == nil && !bytes.Equal(out, pay):
				add(&kViol{Prop: "C07", Sig: "wrong-bytes:storage-corruption:" + be.name, Msg: fmt.Sprintf("%s over %s: Decrypt returned %q without error", m.name, be.name, out)}, []string{be.name, m.name}, "storage")
			}
			switch {
			case wpan != "":
				add(&kViol{Prop: "C07", Sig: "panic:storage-corruption-warm:" + be.name, Msg: fmt.Sprintf("%s over %s: Decrypt on a warm session panicked: %s", m.name, be.name, wpan)}, []string{be.name, m.name}, "storage")
			case werr == nil && !bytes.Equal(wout, pay):
				add(&kViol{Prop: "C07", Sig: "wrong-bytes:storage-corruption-warm:" + be.name, Msg: fmt.Sprintf("%s over %s: warm Decrypt returned %q without error", m.name, be.name, wout)}, []string{be.name, m.name}, "storage")
			}
		}
		s.Close()
		f.Close()
		r.Runs = append(r.Runs, RunInfo{Name: "C07/storage-" + be.name, Executions: n, States: len(muts), Transitions: int64(n), Exhaustive: true,
			Bound: fmt.Sprintf("%d corruptions of the stored form of the key rows, cold + warm decrypt", len(muts)), WallS: time.Since(t0).Seconds()})
		r.Evaluations += n
		r.DistinctNontrivial += len(muts)
		r.TracesValidated += n
		r.States += len(muts)
		r.Transitions += int64(n)
	}
}
