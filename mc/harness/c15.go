package harness

import (
	"fmt"
	"reflect"
	"sort"
	"strings"
	"sync"
	"time"

	"github.com/godaddy/asherah/go/appencryption/pkg/cache"

	"asherahverif/explore"
	"asherahverif/shim/vclock"
	"asherahverif/shim/vsched"
	"asherahverif/walker"
)

// ---------------------------------------------------------------------------------
// C15: the generic cache against reference models, explicit-state BFS over
// Set/Get/Delete/tick/Len/Close histories on the real cache.
// ---------------------------------------------------------------------------------

type c15Config struct {
	Policy string
	Cap    int
	Expiry bool
	Async  bool
	Prefill int // entries inserted before the exploration starts (TinyLFU window thresholds)
	Depth  int
}

func (c c15Config) name() string {
	return fmt.Sprintf("%s-cap%d-expiry=%v-async=%v", c.Policy, c.Cap, c.Expiry, c.Async)
}

const c15Expiry = 100 // seconds

type c15Entry struct {
	key   string
	val   string
	exp   int64
	freq  int
	prot  bool
}

// c15Model is the boring reference: a slice ordered from least to most recently used,
// plus SLRU segment flags and LFU counts.
type c15Model struct {
	cfg     c15Config
	entries []*c15Entry // recency order: index 0 = least recently used (per segment for slru)
	closed  bool
	nsets   map[string]int
}

func (m *c15Model) find(k string) (int, *c15Entry) {
	for i, e := range m.entries {
		if e.key == k {
			return i, e
		}
	}
	return -1, nil
}

func (m *c15Model) remove(i int) { m.entries = append(m.entries[:i:i], m.entries[i+1:]...) }

func (m *c15Model) protectedCap() int { return int(float64(m.cfg.Cap) * 0.8) }

// touch applies the policy's access rule.
func (m *c15Model) touch(i int) {
	e := m.entries[i]
	e.freq++
	m.remove(i)
	if m.cfg.Policy == "slru" && !e.prot {
		e.prot = true
		m.entries = append(m.entries, e)
		// demote the least recently used protected entry if the segment is over capacity
		n := 0
		for _, x := range m.entries {
			if x.prot {
				n++
			}
		}
		if n > m.protectedCap() {
			for j, x := range m.entries {
				if x.prot {
					x.prot = false
					m.remove(j)
					m.entries = append(m.entries, x) // most recently used of probation
					break
				}
			}
		}
		return
	}
	m.entries = append(m.entries, e)
}

// victims returns the set of keys the policy's definition allows as the next victim.
func (m *c15Model) victims() map[string]bool {
	out := map[string]bool{}
	if len(m.entries) == 0 {
		return out
	}
	switch m.cfg.Policy {
	case "lru":
		out[m.entries[0].key] = true
	case "slru":
		for _, e := range m.entries {
			if !e.prot {
				out[e.key] = true
				return out
			}
		}
		out[m.entries[0].key] = true
	case "lfu":
		min := m.entries[0].freq
		for _, e := range m.entries {
			if e.freq < min {
				min = e.freq
			}
		}
		for _, e := range m.entries {
			if e.freq == min {
				out[e.key] = true
			}
		}
	default:
		for _, e := range m.entries {
			out[e.key] = true
		}
	}
	return out
}

func (m *c15Model) dump() string {
	var sb strings.Builder
	for _, e := range m.entries {
		fmt.Fprintf(&sb, "%s=%s f%d p%v x%d;", e.key, e.val, e.freq, e.prot, e.exp)
	}
	ks := make([]string, 0, len(m.nsets))
	for k, n := range m.nsets {
		ks = append(ks, fmt.Sprintf("%s:%d", k, n%2))
	}
	sort.Strings(ks)
	return sb.String() + strings.Join(ks, ",") + fmt.Sprintf(" closed=%v", m.closed)
}

type c15CB struct{ k, v string }

type c15World struct {
	cfg   c15Config
	c     cache.Interface[string, string]
	m     *c15Model
	cbs   []c15CB
	fails []kViol
}

type vclk struct{}

func (vclk) Now() time.Time { return vclock.Now() }

func newC15World(cfg c15Config) *c15World {
	w := &c15World{cfg: cfg, m: &c15Model{cfg: cfg, nsets: map[string]int{}}}
	b := cache.New[string, string](cfg.Cap).WithPolicy(cache.CachePolicy(cfg.Policy)).WithClock(vclk{}).
		WithEvictFunc(func(k, v string) { w.cbs = append(w.cbs, c15CB{k, v}) })
	if cfg.Expiry {
		b = b.WithExpiry(c15Expiry * time.Second)
	}
	if !cfg.Async {
		b = b.Synchronous()
	}
	w.c = b.Build()
	for i := 0; i < cfg.Prefill; i++ {
		w.apply(fmt.Sprintf("set:p%03d", i), true)
	}
	return w
}

func (w *c15World) failf(sig, format string, a ...interface{}) {
	w.fails = append(w.fails, kViol{Prop: "C15", Sig: sig, Msg: fmt.Sprintf(format, a...)})
}

// expectCallbacks compares the callbacks of the step with the allowed ones.
// must: exact (k,v) pairs that have to appear once each; may: pairs that are allowed but optional;
// victimOf: if non-nil exactly one further callback is required whose key is in the set.
func (w *c15World) expectCallbacks(op string, must []c15CB, may []c15CB, victimOf map[string]bool) (victim string) {
	got := append([]c15CB(nil), w.cbs...)
	w.cbs = nil
	take := func(cb c15CB) bool {
		for i, g := range got {
			if g == cb {
				got = append(got[:i:i], got[i+1:]...)
				return true
			}
		}
		return false
	}
	for _, cb := range must {
		if !take(cb) {
			w.failf("callback-missing", "%s: no eviction callback for (%s,%s)", op, cb.k, cb.v)
		}
	}
	if victimOf != nil {
		found := false
		for i, g := range got {
			if victimOf[g.k] {
				if _, e := w.m.find(g.k); e != nil && e.val == g.v {
					victim = g.k
					got = append(got[:i:i], got[i+1:]...)
					found = true
					break
				}
			}
		}
		if !found {
			var ks []string
			for k := range victimOf {
				ks = append(ks, k)
			}
			sort.Strings(ks)
			w.failf("wrong-victim", "%s on a full cache: policy %s must evict one of %v with the value it held; callbacks seen: %v; model: %s", op, w.cfg.Policy, ks, got, w.m.dump())
		}
	}
	for _, cb := range may {
		take(cb)
	}
	for _, g := range got {
		w.failf("spurious-callback", "%s: unexpected eviction callback (%s,%s); model: %s", op, g.k, g.v, w.m.dump())
	}
	return
}

func (w *c15World) apply(op string, quiet bool) {
	kind, key, _ := strings.Cut(op, ":")
	m := w.m
	now := vclock.Unix()
	pan := safe(func() {
		switch kind {
		case "set":
			m.nsets[key]++
			val := fmt.Sprintf("%s/%d", key, m.nsets[key]%2)
			w.c.Set(key, val)
			vsched.Quiesce()
			if m.closed {
				w.expectCallbacks(op, nil, nil, nil)
				return
			}
			if i, e := m.find(key); e != nil {
				old := e.val
				e.val = val
				if w.cfg.Expiry {
					e.exp = now + c15Expiry
				}
				m.touch(i)
				w.expectCallbacks(op, nil, []c15CB{{key, old}}, nil)
				return
			}
			if len(m.entries) == w.cfg.Cap && w.cfg.Cap > 0 {
				v := w.expectCallbacks(op, nil, nil, m.victims())
				if v == "" {
					// resynchronise the model on what the cache really evicted so that later steps stay meaningful
					for _, e := range m.entries {
						if _, ok := w.c.Get(e.key); !ok {
							v = e.key
							break
						}
					}
					vsched.Quiesce()
					w.cbs = nil
				}
				if i, _ := m.find(v); i >= 0 {
					m.remove(i)
				}
			} else {
				w.expectCallbacks(op, nil, nil, nil)
			}
			e := &c15Entry{key: key, val: val, freq: 1}
			if w.cfg.Expiry {
				e.exp = now + c15Expiry
			}
			m.entries = append(m.entries, e)
			if w.cfg.Policy == "slru" {
				// new entries are the most recently used of probation: keep probation entries after protected ones in recency
			}
		case "get":
			v, ok := w.c.Get(key)
			vsched.Quiesce()
			i, e := m.find(key)
			switch {
			case m.closed || e == nil:
				if ok {
					w.failf("get-hit-unexpected", "%s returned (%q,true) for a key that was deleted, evicted, never set or after Close; model: %s", op, v, m.dump())
				}
				w.expectCallbacks(op, nil, nil, nil)
			case w.cfg.Expiry && e.exp < now:
				if ok {
					w.failf("get-expired-hit", "%s returned an expired entry", op)
				}
				w.expectCallbacks(op, []c15CB{{key, e.val}}, nil, nil)
				m.remove(i)
			default:
				if !ok || v != e.val {
					w.failf("get-wrong", "%s returned (%q,%v), want (%q,true); model: %s", op, v, ok, e.val, m.dump())
				}
				m.touch(i)
				w.expectCallbacks(op, nil, nil, nil)
			}
		case "del":
			ok := w.c.Delete(key)
			vsched.Quiesce()
			i, e := m.find(key)
			if m.closed {
				e = nil
			}
			if ok != (e != nil) {
				w.failf("delete-result", "%s returned %v, want %v", op, ok, e != nil)
			}
			if e != nil {
				w.expectCallbacks(op, nil, []c15CB{{key, e.val}}, nil)
				m.remove(i)
			} else {
				w.expectCallbacks(op, nil, nil, nil)
			}
		case "len":
			n := w.c.Len()
			want := len(m.entries)
			if m.closed {
				want = 0
			}
			if n != want {
				w.failf("len", "Len() = %d, model holds %d", n, want)
			}
			if n > w.cfg.Cap {
				w.failf("over-capacity", "Len() = %d exceeds capacity %d", n, w.cfg.Cap)
			}
			// (the capacity accessor is part of the same read-only query: an open cache reports the bound it was built with;
			// after Close it is only required not to panic or block)
			if cp := w.c.Capacity(); cp != w.cfg.Cap && !m.closed {
				w.failf("capacity", "Capacity() = %d, the cache was built with %d", cp, w.cfg.Cap)
			}
		case "tick":
			vclock.Advance((c15Expiry + 1) * time.Second)
		case "close":
			err := w.c.Close()
			vsched.Quiesce()
			if err != nil {
				w.failf("close-error", "Close returned %v", err)
			}
			var must []c15CB
			if !m.closed {
				for _, e := range m.entries {
					must = append(must, c15CB{e.key, e.val})
				}
			}
			w.expectCallbacks(op, must, nil, nil)
			m.closed = true
			m.entries = nil
		}
	})
	if pan != "" {
		w.failf("panic:"+kind, "%s panicked: %s; model: %s", op, pan, m.dump())
	}
	if quiet {
		w.fails = nil
	}
}

func (w *c15World) enabled() []string {
	keys := []string{"a", "b", "c", "d"}
	var ops []string
	for _, k := range keys {
		ops = append(ops, "set:"+k)
	}
	for _, k := range keys {
		ops = append(ops, "get:"+k)
	}
	for _, k := range keys {
		ops = append(ops, "del:"+k)
	}
	if w.cfg.Expiry {
		ops = append(ops, "tick")
	}
	ops = append(ops, "len", "close")
	return ops
}

func c15Special(v reflect.Value) (string, bool) {
	t := v.Type()
	if t.Kind() == reflect.Struct {
		switch t.PkgPath() {
		case "asherahverif/shim/vsync", "asherahverif/shim/vsched":
			return "~", true
		}
		if strings.HasPrefix(t.Name(), "BloomFilter") || strings.HasPrefix(t.Name(), "CountMinSketch") {
			return "", false
		}
	}
	return "", false
}

func (w *c15World) key() string {
	wk := walker.New(c15Special)
	wk.Raw(fmt.Sprintf("now=%d", vclock.Unix()))
	wk.Root("cache", w.c)
	wk.Raw(w.m.dump())
	return wk.String()
}

// c15Run replays a history on a fresh cache and judges the last operation.
func c15Run(cfg c15Config, hist []string) (key string, viols []kViol, enabled []string) {
	resetGlobals()
	x := vsched.Run(vsched.RunOptions{MaxSteps: 500000}, func() {
		vsched.BeginQuiet()
		w := newC15World(cfg)
		vsched.Quiesce()
		for i, op := range hist {
			w.apply(op, i < len(hist)-1)
			vsched.Quiesce()
		}
		viols = w.fails
		k := hashKey(w.key())
		key = string(k[:])
		enabled = w.enabled()
		// an asynchronous cache that was not closed leaves its event goroutine parked: fine
	})
	switch {
	case x.PanicVal != nil:
		viols = append(viols, kViol{Prop: "C15", Sig: "panic-outside-op", Msg: fmt.Sprintf("panic: %v\n%s", x.PanicVal, x.PanicStack)})
	case x.Deadlock != "":
		viols = append(viols, kViol{Prop: "C15", Sig: "deadlock", Msg: "deadlock: " + x.Deadlock})
	case x.Horizon:
		viols = append(viols, kViol{Prop: "C15", Sig: "horizon", Msg: "step cap"})
	}
	return
}

func c15BFS(cfg c15Config, deadline time.Time) *KResult {
	t0 := time.Now()
	res := &KResult{Cfg: &KConfig{Name: cfg.name(), Depth: cfg.Depth}, Counters: map[string]int{}, Exhaustive: true}
	rootKey, _, _ := c15Run(cfg, nil)
	seen := map[string]bool{rootKey: true}
	res.States = 1
	frontier := [][]string{{}}
	sigSeen := map[string]bool{}
	complete := false
	for depth := 0; len(frontier) > 0; depth++ {
		if cfg.Depth > 0 && depth >= cfg.Depth {
			break
		}
		var next [][]string
		for fi, h := range frontier {
			if fi%32 == 0 && !deadline.IsZero() && time.Now().After(deadline) {
				res.Cap = fmt.Sprintf("deadline at depth %d", depth+1)
				res.Exhaustive = false
				frontier = nil
				next = nil
				break
			}
			_, _, enabled := c15Run(cfg, h)
			for _, op := range enabled {
				h2 := append(append([]string{}, h...), op)
				k, viols, _ := c15Run(cfg, h2)
				res.Transitions++
				for _, v := range viols {
					sig := cfg.name() + ":" + v.Sig
					res.Counters["violating-transitions"]++
					if !sigSeen[sig] {
						sigSeen[sig] = true
						res.Viols = append(res.Viols, Viol{Property: "C15", Harness: "C15/" + cfg.name(), Sig: sig, Msg: v.Msg, Ops: h2})
					}
				}
				if len(viols) > 0 {
					continue // do not expand beyond a violating state (the model is out of sync)
				}
				if !seen[k] {
					seen[k] = true
					res.States++
					next = append(next, h2)
					if len(res.Samples) < 2 && len(h2) >= 4 {
						res.Samples = append(res.Samples, h2)
					}
				}
			}
		}
		if res.Cap != "" {
			break
		}
		res.DepthDone = depth + 1
		res.PerLevel = append(res.PerLevel, len(next))
		frontier = next
		if len(next) == 0 {
			complete = true
		}
	}
	if !complete && res.Exhaustive {
		// the depth cap ended the search before the reachable space was closed
		res.Cap = fmt.Sprintf("depth cap %d (reachable space not closed)", cfg.Depth)
	}
	res.Counters["space-closed"] = 0
	if complete {
		res.Counters["space-closed"] = 1
	}
	res.Wall = time.Since(t0).Seconds()
	return res
}

func c15Plan(thorough bool) []c15Config {
	var out []c15Config
	pols := []string{"lru", "lfu", "slru", "tinylfu"}
	for _, p := range pols {
		caps := []int{1, 2, 3}
		depth := 5
		if thorough {
			caps = []int{1, 2, 3, 4, 5, 6}
			depth = 6
		}
		for _, c := range caps {
			out = append(out, c15Config{Policy: p, Cap: c, Depth: depth})
		}
		out = append(out, c15Config{Policy: p, Cap: 2, Expiry: true, Depth: depth})
		out = append(out, c15Config{Policy: p, Cap: 2, Async: true, Depth: depth - 1})
		if thorough {
			out = append(out, c15Config{Policy: p, Cap: 3, Expiry: true, Async: true, Depth: depth - 1})
		}
	}
	// both sides of TinyLFU's admission-window threshold (capacity 100: window of 1 entry)
	for _, c := range []int{99, 100, 101} {
		d := 3
		if thorough {
			d = 4
		}
		out = append(out, c15Config{Policy: "tinylfu", Cap: c, Prefill: c - 1, Depth: d})
	}
	return out
}

// CheckC15 runs the BFS for every configuration of the tier.
func CheckC15(r *Report) {
	r.Rule = "breadth-first search over Set/Get/Delete/tick/Len/Close histories on keys {a,b,c,d} (values alternate per key) on the real cache, each step compared with a reference model (map + LRU / LFU / SLRU victim rules); state = canonical dump of the real cache (byKey + policy lists) + model; distinct_nontrivial = distinct states"
	byName := map[string]c15Config{}
	var names []string
	for _, cfg := range c15Plan(r.Thorough()) {
		byName[cfg.name()] = cfg
		names = append(names, cfg.name())
	}
	names = append(names, "schedules", "long-histories")
	r.RunScenarios(names, func(r *Report, name string) {
		if name == "schedules" {
			c15Sched(r)
			return
		}
		if name == "long-histories" {
			c15Long(r)
			return
		}
		if !r.TimeLeft() {
			r.Exhaustive = false
			r.Caps = append(r.Caps, name+": not started (time budget)")
			return
		}
		kr := c15BFS(byName[name], r.Deadline)
		r.AddK(kr, nil)
	})
	r.Rule += " || PLUS a fixed family of long deterministic histories (4 access patterns x 4 policies x capacities 2, 5, 100, 128; 300-6000 operations; TinyLFU with an admission window across its sample reset), every step judged by the same reference model || PLUS asynchronous eviction under the controlled scheduler: two user goroutines and the cache's event goroutine, every interleaving up to the preemption bound (no deadlock, callbacks exactly once and all delivered before Close returns)"
}

// c15RaceBody hammers asynchronous caches of every policy from three goroutines (free-running -race pass only).
func c15RaceBody(c *explore.Ctx) {
	for _, pol := range []string{"lru", "lfu", "slru", "tinylfu"} {
		var mu sync.Mutex
		n := 0
		ch := cache.New[string, string](2).WithPolicy(cache.CachePolicy(pol)).WithEvictFunc(func(k, v string) { mu.Lock(); n++; mu.Unlock() }).Build()
		for t := 0; t < 3; t++ {
			t := t
			vsched.GoNamed("user", func() {
				keys := []string{"a", "b", "c", "d"}
				for i := 0; i < 40; i++ {
					k := keys[(i+t)%4]
					switch i % 3 {
					case 0:
						ch.Set(k, "v")
					case 1:
						ch.Get(k)
					default:
						ch.Delete(k)
					}
					ch.Len()
				}
			})
		}
		vsched.Quiesce()
		ch.Close()
	}
}

// ---------------------------------------------------------------------------------
// C15 (schedules): asynchronous eviction. Two user goroutines operate on one cache whose
// eviction callbacks are delivered by the cache's event goroutine; every interleaving up
// to the preemption bound. Oracle: no deadlock / panic, Len never above capacity, a Get
// returns a value that was Set for that key, and when Close returns every entry that left
// the cache (by eviction or by Close) has had its callback exactly once.
// ---------------------------------------------------------------------------------

type c15SchedScenario struct {
	name    string
	policy  string
	cap     int
	threads [][]string
}

func (sc c15SchedScenario) body(c *explore.Ctx) {
	vsched.BeginQuiet()
	var cbs []c15CB
	var mu sync.Mutex // a real mutex for the harness's own bookkeeping (matters only in the free-running -race pass)
	ch := cache.New[string, string](sc.cap).WithPolicy(cache.CachePolicy(sc.policy)).WithClock(vclk{}).
		WithEvictFunc(func(k, v string) { mu.Lock(); cbs = append(cbs, c15CB{k, v}); mu.Unlock() }).Build()
	vsched.EndQuiet()
	sets := map[c15CB]int{}
	var fails []string
	closedAt := -1
	for ti, ops := range sc.threads {
		ti, ops := ti, ops
		vsched.GoNamed(fmt.Sprintf("user%d", ti), func() {
			for oi, op := range ops {
				kind, key, _ := strings.Cut(op, ":")
				pan := safe(func() {
					switch kind {
					case "set":
						v := fmt.Sprintf("%s@t%d.%d", key, ti, oi)
						mu.Lock()
						sets[c15CB{key, v}]++
						mu.Unlock()
						ch.Set(key, v)
					case "get":
						v, ok := ch.Get(key)
						mu.Lock()
						if ok && sets[c15CB{key, v}] == 0 {
							fails = append(fails, fmt.Sprintf("Get(%s) returned %q which was never set", key, v))
						}
						mu.Unlock()
					case "del":
						ch.Delete(key)
					case "len":
						if n := ch.Len(); n > sc.cap {
							mu.Lock()
							fails = append(fails, fmt.Sprintf("Len() = %d above capacity %d", n, sc.cap))
							mu.Unlock()
						}
					case "close":
						ch.Close()
						mu.Lock()
						closedAt = len(cbs)
						mu.Unlock()
					}
				})
				if pan != "" {
					mu.Lock()
					fails = append(fails, fmt.Sprintf("%s panicked: %s", op, pan))
					mu.Unlock()
				}
			}
		})
	}
	vsched.Quiesce()
	if b := vsched.Blocked(); len(b) > 0 {
		// the event goroutine of a cache that was not closed is parked on its channel: close now
		closed := false
		for _, ops := range sc.threads {
			for _, op := range ops {
				if op == "close" {
					closed = true
				}
			}
		}
		if closed {
			c.Failf("blocked", "threads still parked after Close returned: %v", b)
			return
		}
	}
	for _, f := range fails {
		c.Failf("async:"+strings.SplitN(f, " ", 2)[0], "%s", f)
	}
	if closedAt >= 0 && closedAt != len(cbs) {
		c.Failf("callback-after-close-returned", "%d eviction callbacks were delivered after Close had returned", len(cbs)-closedAt)
	}
	vsched.BeginQuiet()
	ch.Close()
	vsched.EndQuiet()
	if b := vsched.Blocked(); len(b) > 0 {
		c.Failf("blocked-after-close", "goroutines parked after Close: %v", b)
	}
	// every callback carries a value that was set, each (key, value) at most once
	seen := map[c15CB]int{}
	for _, cb := range cbs {
		seen[cb]++
		if sets[cb] == 0 {
			c.Failf("callback-unknown-value", "eviction callback for (%s,%s) which was never set", cb.k, cb.v)
		}
		if seen[cb] > 1 {
			c.Failf("callback-twice", "eviction callback for (%s,%s) delivered %d times", cb.k, cb.v, seen[cb])
		}
	}
	// after Close nothing is retrievable, so every value that was set and not overwritten/deleted left the cache:
	// at least (number of distinct keys still present before close) callbacks must exist; checked through Len bookkeeping
	if _, ok := ch.Get("a"); ok {
		c.Failf("get-after-close", "Get after Close returned a value")
	}
	c.Outcome(fmt.Sprintf("callbacks=%d", len(cbs)))
}

func c15SchedScenarios(thorough bool) []c15SchedScenario {
	var out []c15SchedScenario
	pols := []string{"lru", "slru"}
	if thorough {
		pols = []string{"lru", "lfu", "slru", "tinylfu"}
	}
	for _, p := range pols {
		out = append(out,
			c15SchedScenario{"async-" + p + "-evict-vs-get", p, 1, [][]string{{"set:a", "set:b", "len"}, {"get:a", "set:c", "get:c"}}},
			c15SchedScenario{"async-" + p + "-close-vs-set", p, 2, [][]string{{"set:a", "set:b", "close"}, {"set:c", "get:a", "del:b"}}},
		)
	}
	return out
}

func c15Sched(r *Report) {
	bound := 2
	if r.Thorough() {
		bound = 3
	}
	for _, sc := range c15SchedScenarios(r.Thorough()) {
		sc := sc
		t0 := time.Now()
		cfg := explore.Config{Name: "C15s/" + sc.name, Preemptions: bound, Deviations: 0, HBCache: true, Deadline: r.Deadline, MaxViolations: 5}
		res := explore.Explore(cfg, sc.body)
		r.AddExplore(res, fmt.Sprintf("preemption bound %d", bound), time.Since(t0).Seconds())
	}
}

// ---------------------------------------------------------------------------------
// C15 (long histories): the breadth-first search cannot reach thresholds that need hundreds of operations (TinyLFU's
// sample reset after 8 x capacity accesses with an admission window, the frequency sketch saturating, LFU frequency
// lists with many buckets). A fixed family of long deterministic histories - every (policy, capacity, key-universe,
// pattern) combination below, no sampling - is run with the reference model judging every single step.
// ---------------------------------------------------------------------------------

func c15LongOps(pattern string, universe, length int) []string {
	k := func(i int) string { return fmt.Sprintf("k%d", ((i%universe)+universe)%universe) }
	var ops []string
	for i := 0; len(ops) < length; i++ {
		switch pattern {
		case "round-robin+hot":
			ops = append(ops, "set:"+k(i), "get:"+k(0))
		case "quadratic":
			ops = append(ops, "set:"+k(i*i), "get:"+k(i*7))
			if i%10 == 9 {
				ops = append(ops, "del:"+k(i))
			}
		case "hot-pair+cold-sweep":
			ops = append(ops, "get:"+k(0), "get:"+k(1), "set:"+k(0), "set:"+k(2+i%(universe-2)), "get:"+k(1))
		case "sawtooth":
			// fill upwards, read downwards: the recency order is reversed again and again
			n := i % (2 * universe)
			if n < universe {
				ops = append(ops, "set:"+k(n))
			} else {
				ops = append(ops, "get:"+k(2*universe-1-n))
			}
			if i%97 == 96 {
				ops = append(ops, "len")
			}
		}
	}
	return ops[:length]
}

func c15LongRun(cfg c15Config, ops []string) (viols []kViol, steps int) {
	resetGlobals()
	x := vsched.Run(vsched.RunOptions{MaxSteps: 50000000}, func() {
		vsched.BeginQuiet()
		w := newC15World(cfg)
		vsched.Quiesce()
		for i, op := range ops {
			w.apply(op, false)
			vsched.Quiesce()
			steps++
			if len(w.fails) > 0 {
				for _, v := range w.fails {
					v.Msg = fmt.Sprintf("step %d (%s): %s", i, op, v.Msg)
					viols = append(viols, v)
				}
				return
			}
		}
		w.apply("close", false)
		vsched.Quiesce()
		viols = append(viols, w.fails...)
	})
	switch {
	case x.PanicVal != nil:
		viols = append(viols, kViol{Prop: "C15", Sig: "panic-outside-op", Msg: fmt.Sprintf("panic: %v\n%s", x.PanicVal, x.PanicStack)})
	case x.Deadlock != "":
		viols = append(viols, kViol{Prop: "C15", Sig: "deadlock", Msg: "deadlock: " + x.Deadlock})
	case x.Horizon:
		viols = append(viols, kViol{Prop: "C15", Sig: "horizon", Msg: "step cap"})
	}
	return
}

type c15LongCase struct {
	cfg      c15Config
	pattern  string
	universe int
	length   int
}

func (lc c15LongCase) name() string {
	return fmt.Sprintf("long/%s-cap%d-expiry=%v/%s-u%d-n%d", lc.cfg.Policy, lc.cfg.Cap, lc.cfg.Expiry, lc.pattern, lc.universe, lc.length)
}

func c15LongCases(thorough bool) []c15LongCase {
	var out []c15LongCase
	pats := []string{"round-robin+hot", "quadratic", "hot-pair+cold-sweep", "sawtooth"}
	for _, pol := range []string{"lru", "lfu", "slru", "tinylfu"} {
		for _, cp := range []int{2, 5} {
			for _, pat := range pats {
				out = append(out, c15LongCase{c15Config{Policy: pol, Cap: cp}, pat, cp + 3, 300})
			}
		}
		out = append(out, c15LongCase{c15Config{Policy: pol, Cap: 3, Expiry: true}, "quadratic", 6, 300})
	}
	// TinyLFU with an admission window (capacity >= 100): across the sample reset (8 x capacity accesses)
	for _, cp := range []int{100, 128} {
		for _, pat := range pats {
			n := 2200
			if thorough {
				n = 6000
			}
			out = append(out, c15LongCase{c15Config{Policy: "tinylfu", Cap: cp}, pat, cp + 30, n})
		}
	}
	if thorough {
		for _, pol := range []string{"lru", "lfu", "slru"} {
			for _, pat := range pats {
				out = append(out, c15LongCase{c15Config{Policy: pol, Cap: 100}, pat, 130, 3000})
			}
		}
	}
	return out
}

func c15Long(r *Report) {
	t0 := time.Now()
	n, steps := 0, 0
	seen := map[string]bool{}
	for _, lc := range c15LongCases(r.Thorough()) {
		if !r.TimeLeft() {
			r.Exhaustive = false
			r.Caps = append(r.Caps, "long histories: time budget")
			break
		}
		ops := c15LongOps(lc.pattern, lc.universe, lc.length)
		viols, st := c15LongRun(lc.cfg, ops)
		n++
		steps += st
		for _, v := range viols {
			sig := v.Sig + "@C15/" + lc.name()
			if !seen[v.Sig+lc.cfg.Policy] {
				seen[v.Sig+lc.cfg.Policy] = true
				r.Viols = append(r.Viols, Viol{Property: "C15", Harness: "C15/" + lc.name(), Sig: sig, Msg: v.Msg, Ops: []string{lc.name()}})
			}
		}
	}
	r.Runs = append(r.Runs, RunInfo{Name: "C15/long-histories", Executions: n, States: steps, Transitions: int64(steps), Exhaustive: true,
		Bound: fmt.Sprintf("%d fixed long histories (4 patterns x policies x capacities incl. TinyLFU with an admission window across its sample reset), every step judged by the reference model", n), WallS: time.Since(t0).Seconds()})
	r.Evaluations += steps
	r.TracesValidated += steps
	r.Transitions += int64(steps)
}

func c15LongReplay(name string) []string {
	for _, lc := range c15LongCases(true) {
		if lc.name() == name {
			viols, _ := c15LongRun(lc.cfg, c15LongOps(lc.pattern, lc.universe, lc.length))
			var out []string
			for _, v := range viols {
				out = append(out, v.Sig+": "+v.Msg)
			}
			return out
		}
	}
	for _, lc := range c15LongCases(false) {
		if lc.name() == name {
			viols, _ := c15LongRun(lc.cfg, c15LongOps(lc.pattern, lc.universe, lc.length))
			var out []string
			for _, v := range viols {
				out = append(out, v.Sig+": "+v.Msg)
			}
			return out
		}
	}
	return []string{"unknown long history " + name}
}
