package harness

import (
	"bytes"
	"errors"
	"fmt"
	"math"
	"sort"
	"strings"
	"time"

	"context"

	ae "github.com/godaddy/asherah/go/appencryption"

	"asherahverif/doubles"
	"asherahverif/ref"
	"asherahverif/shim/vclock"
)

// ---------------------------------------------------------------------------------
// C07: bounded-exhaustive mutation of genuine records and of metastore rows; decrypt /
// load must return the original payload or an error, never other bytes, never panic.
// ---------------------------------------------------------------------------------

type c07World struct {
	w     *World
	spec  PolicySpec
	f     *ae.SessionFactory
	recs  []*ae.DataRowRecord
	pay   [][]byte
	parts []string
	warm  map[string]*ae.Session
	suffix string
	degraded []string // genuine operations that failed during set-up
}

func newC07World(spec PolicySpec, suffix string) *c07World {
	resetGlobals()
	cw := &c07World{w: NewWorld(), spec: spec, warm: map[string]*ae.Session{}, suffix: suffix}
	cw.w.MS.Suffix = suffix // a region-suffixing metastore switches the SDK to suffixed partitions
	cw.f = cw.w.NewFactory(spec)
	mk := func(part string, n int) {
		s, _ := cw.f.GetSession(part)
		pl := []byte(fmt.Sprintf("pay%d-%s!", n, part))[:8]
		r, err := s.Encrypt(ctx, append([]byte(nil), pl...))
		if err != nil {
			panic(err)
		}
		s.Close()
		cw.recs = append(cw.recs, r)
		cw.pay = append(cw.pay, pl)
		cw.parts = append(cw.parts, part)
	}
	mk("A", 0)
	mk("B", 1)
	vclock.Advance((E + 1) * time.Second)
	mk("A", 2)
	mk("B", 3)
	return cw
}

// warmSession returns a long-lived session of a separate factory that has every genuine key cached.
func (cw *c07World) warmUp() {
	wf := cw.w.NewFactory(cw.spec)
	for i, p := range cw.parts {
		s, ok := cw.warm[p]
		if !ok {
			s, _ = wf.GetSession(p)
			cw.warm[p] = s
		}
		var out []byte
		var err error
		if pan := safe(func() { out, err = s.Decrypt(ctx, *cloneDRR(cw.recs[i])) }); pan != "" || err != nil || !bytes.Equal(out, cw.pay[i]) {
			// the SDK under test cannot decrypt a genuine record (not C07's business, C01 reports it): the mutation series
			// still runs - a panic or wrong bytes on a mutated record remains a violation - but the run is marked
			cw.degraded = append(cw.degraded, fmt.Sprintf("warm-up decrypt of genuine record %d failed: %v %s", i, err, pan))
		}
	}
}

type c07Case struct {
	name    string
	part    string
	drr     *ae.DataRowRecord
	accept  [][]byte // payloads that may legitimately come back
	viaLoad int      // 0 Decrypt, 1 Load(loader returns drr), 2 Load(loader error), 3 Load(loader returns nil)
}

type c07Loader struct {
	drr *ae.DataRowRecord
	err error
}

func (l c07Loader) Load(context.Context, interface{}) (*ae.DataRowRecord, error) { return l.drr, l.err }

var errLoader = errors.New("loader: record not found")

// run executes one case on a session and judges it.
func (cw *c07World) run(s *ae.Session, c *c07Case, mode string) *kViol {
	var out []byte
	var err error
	arg := cloneDRR(c.drr)
	pan := safe(func() {
		switch c.viaLoad {
		case 0:
			out, err = s.Decrypt(ctx, *arg)
		case 1:
			out, err = s.Load(ctx, "k", c07Loader{drr: arg})
		case 2:
			out, err = s.Load(ctx, "k", c07Loader{err: errLoader})
		case 3:
			out, err = s.Load(ctx, "k", c07Loader{})
		}
	})
	if pan != "" {
		return &kViol{Prop: "C07", Sig: "panic:" + sigClass(c.name), Msg: fmt.Sprintf("%s (%s caches): %s panicked: %s", c.name, mode, []string{"Decrypt", "Load", "Load", "Load"}[c.viaLoad], pan)}
	}
	if err != nil {
		return nil
	}
	for _, a := range c.accept {
		if bytes.Equal(out, a) {
			return nil
		}
	}
	return &kViol{Prop: "C07", Sig: "wrong-bytes:" + sigClass(c.name), Msg: fmt.Sprintf("%s (%s caches): returned %q without error; acceptable payloads %q", c.name, mode, out, c.accept)}
}

func sigClass(name string) string {
	for i := 0; i < len(name); i++ {
		if name[i] == ' ' || name[i] == '[' {
			return name[:i]
		}
	}
	return name
}

func flipBit(b []byte, i int) []byte {
	c := append([]byte(nil), b...)
	c[i/8] ^= 1 << (uint(i) % 8)
	return c
}

// recordCases enumerates the mutations of the data row records themselves.
func (cw *c07World) recordCases(thorough bool) []*c07Case {
	var cs []*c07Case
	for ri, r := range cw.recs {
		acc := [][]byte{cw.pay[ri]}
		for i := 0; i < len(r.Data)*8; i++ {
			d := cloneDRR(r)
			d.Data = flipBit(r.Data, i)
			cs = append(cs, &c07Case{name: fmt.Sprintf("data-bitflip [rec %d bit %d]", ri, i), part: cw.parts[ri], drr: d, accept: acc})
		}
		for i := 0; i < len(r.Key.EncryptedKey)*8; i++ {
			d := cloneDRR(r)
			d.Key.EncryptedKey = flipBit(r.Key.EncryptedKey, i)
			cs = append(cs, &c07Case{name: fmt.Sprintf("key-bitflip [rec %d bit %d]", ri, i), part: cw.parts[ri], drr: d, accept: acc})
		}
		for n := 0; n < len(r.Data); n++ {
			d := cloneDRR(r)
			d.Data = d.Data[:n]
			cs = append(cs, &c07Case{name: fmt.Sprintf("data-truncated [rec %d len %d]", ri, n), part: cw.parts[ri], drr: d, accept: acc})
			d2 := cloneDRR(r)
			d2.Data = d2.Data[len(r.Data)-n:]
			cs = append(cs, &c07Case{name: fmt.Sprintf("data-head-cut [rec %d len %d]", ri, n), part: cw.parts[ri], drr: d2, accept: acc})
		}
		for n := 0; n < len(r.Key.EncryptedKey); n++ {
			d := cloneDRR(r)
			d.Key.EncryptedKey = d.Key.EncryptedKey[:n]
			cs = append(cs, &c07Case{name: fmt.Sprintf("key-truncated [rec %d len %d]", ri, n), part: cw.parts[ri], drr: d, accept: acc})
		}
		// structural
		type mut struct {
			n string
			f func(d *ae.DataRowRecord)
		}
		for _, m := range []mut{
			{"nil-key", func(d *ae.DataRowRecord) { d.Key = nil }},
			{"nil-parent-meta", func(d *ae.DataRowRecord) { d.Key.ParentKeyMeta = nil }},
			{"nil-data", func(d *ae.DataRowRecord) { d.Data = nil }},
			{"nil-encrypted-key", func(d *ae.DataRowRecord) { d.Key.EncryptedKey = nil }},
			{"empty-parent-id", func(d *ae.DataRowRecord) { d.Key.ParentKeyMeta.ID = "" }},
			{"parent-created-0", func(d *ae.DataRowRecord) { d.Key.ParentKeyMeta.Created = 0 }},
			{"parent-created-minus1", func(d *ae.DataRowRecord) { d.Key.ParentKeyMeta.Created = -1 }},
			{"parent-created-max", func(d *ae.DataRowRecord) { d.Key.ParentKeyMeta.Created = math.MaxInt64 }},
			{"parent-created-min", func(d *ae.DataRowRecord) { d.Key.ParentKeyMeta.Created = math.MinInt64 }},
			{"key-created-max", func(d *ae.DataRowRecord) { d.Key.Created = math.MaxInt64 }},
			{"key-created-min", func(d *ae.DataRowRecord) { d.Key.Created = math.MinInt64 }},
			{"key-revoked", func(d *ae.DataRowRecord) { d.Key.Revoked = true }},
			{"parent-id-is-sk", func(d *ae.DataRowRecord) { d.Key.ParentKeyMeta.ID = ref.SystemKeyID("s", "p", cw.suffix) }},
			{"data-appended", func(d *ae.DataRowRecord) { d.Data = append(d.Data, 0) }},
			{"data-doubled", func(d *ae.DataRowRecord) { d.Data = append(d.Data, d.Data...) }},
		} {
			d := cloneDRR(r)
			m.f(d)
			for via := 0; via <= 1; via++ {
				cs = append(cs, &c07Case{name: fmt.Sprintf("structural-%s [rec %d via %d]", m.n, ri, via), part: cw.parts[ri], drr: d, accept: acc, viaLoad: via})
			}
		}
		// the parent key id as an arbitrary string: every prefix and every suffix of the genuine id, ids without any
		// separator, separators only, extensions, a very long one
		gid := r.Key.ParentKeyMeta.ID
		idSet := map[string]bool{}
		for n := 0; n < len(gid); n++ {
			idSet[gid[:n]] = true
			idSet[gid[n+1:]] = true
			idSet[gid[:n]+gid[n+1:]] = true
		}
		for _, x := range []string{"x", "A", "\xff\xfe", "_", "__", "___", "_IK_", "_IK__", "_SK_", gid + "_", gid + "_x", gid + "x", "_" + gid, strings.ToLower(gid), strings.Repeat("k", 70000), strings.Repeat("_", 300)} {
			idSet[x] = true
		}
		delete(idSet, gid)
		var idList []string
		for x := range idSet {
			idList = append(idList, x)
		}
		sort.Strings(idList)
		for _, x := range idList {
			d := cloneDRR(r)
			d.Key.ParentKeyMeta.ID = x
			nm := x
			if len(nm) > 40 {
				nm = fmt.Sprintf("%s...(%d bytes)", nm[:20], len(x))
			}
			cs = append(cs, &c07Case{name: fmt.Sprintf("structural-parent-id %q [rec %d]", nm, ri), part: cw.parts[ri], drr: d, accept: acc})
		}
		cs = append(cs, &c07Case{name: fmt.Sprintf("loader-error [rec %d]", ri), part: cw.parts[ri], drr: r, accept: acc, viaLoad: 2})
		cs = append(cs, &c07Case{name: fmt.Sprintf("loader-returns-nil [rec %d]", ri), part: cw.parts[ri], drr: r, accept: acc, viaLoad: 3})
	}
	// every recombination of the five fields across the genuine records, through each partition's session of the Data donor
	n := len(cw.recs)
	for a := 0; a < n; a++ {
		for b := 0; b < n; b++ {
			for c := 0; c < n; c++ {
				for d := 0; d < n; d++ {
					for e := 0; e < n; e++ {
						if a == b && b == c && c == d && d == e {
							continue
						}
						rec := &ae.DataRowRecord{Data: append([]byte(nil), cw.recs[a].Data...), Key: &ae.EnvelopeKeyRecord{
							EncryptedKey: append([]byte(nil), cw.recs[b].Key.EncryptedKey...), Created: cw.recs[c].Key.Created,
							ParentKeyMeta: &ae.KeyMeta{ID: cw.recs[d].Key.ParentKeyMeta.ID, Created: cw.recs[e].Key.ParentKeyMeta.Created}}}
						// the session is the one of the partition named by the parent id (otherwise the partition guard rejects at once)
						cs = append(cs, &c07Case{name: fmt.Sprintf("spliced [data %d key %d created %d pid %d pcreated %d]", a, b, c, d, e), part: cw.parts[d], drr: rec, accept: [][]byte{cw.pay[a]}})
					}
				}
			}
		}
	}
	return cs
}

// rowMutation is one corruption of a metastore row, applied in place and undone afterwards.
type rowMutation struct {
	name  string
	apply func() (undo func())
}

func (cw *c07World) rowMutations() []rowMutation {
	var ms []rowMutation
	store := cw.w.MS
	for _, row := range store.SortedRows() {
		row := row
		id, created := row.ID, row.Created
		tag := fmt.Sprintf("%s/%d", id, created)
		setKey := func(nk []byte) func() (func()) {
			return func() func() {
				old := row.Rec.EncryptedKey
				row.Rec.EncryptedKey = nk
				return func() { row.Rec.EncryptedKey = old }
			}
		}
		k := row.Rec.EncryptedKey
		for i := 0; i < len(k)*8; i++ {
			ms = append(ms, rowMutation{fmt.Sprintf("row-key-bitflip [%s bit %d]", tag, i), setKey(flipBit(k, i))})
		}
		for n := 0; n < len(k); n++ {
			ms = append(ms, rowMutation{fmt.Sprintf("row-key-truncated [%s len %d]", tag, n), setKey(append([]byte(nil), k[:n]...))})
		}
		ms = append(ms, rowMutation{fmt.Sprintf("row-missing [%s]", tag), func() func() {
			delete(store.Rows[id], created)
			return func() { store.Rows[id][created] = row }
		}})
		ms = append(ms, rowMutation{fmt.Sprintf("row-revoked-toggled [%s]", tag), func() func() {
			row.Rec.Revoked = !row.Rec.Revoked
			return func() { row.Rec.Revoked = !row.Rec.Revoked }
		}})
		ms = append(ms, rowMutation{fmt.Sprintf("row-created-field-changed [%s]", tag), func() func() {
			row.Rec.Created += 60
			return func() { row.Rec.Created -= 60 }
		}})
		if row.Rec.ParentKeyMeta != nil {
			pm := row.Rec.ParentKeyMeta
			ms = append(ms, rowMutation{fmt.Sprintf("row-parent-nil [%s]", tag), func() func() {
				row.Rec.ParentKeyMeta = nil
				return func() { row.Rec.ParentKeyMeta = pm }
			}})
			ms = append(ms, rowMutation{fmt.Sprintf("row-parent-missing-sk [%s]", tag), func() func() {
				row.Rec.ParentKeyMeta = &ae.KeyMeta{ID: pm.ID, Created: pm.Created + 1}
				return func() { row.Rec.ParentKeyMeta = pm }
			}})
			ms = append(ms, rowMutation{fmt.Sprintf("row-parent-other-sk [%s]", tag), func() func() {
				other := pm.Created
				for _, r2 := range store.SortedRows() {
					if r2.ID == pm.ID && r2.Created != pm.Created {
						other = r2.Created
					}
				}
				row.Rec.ParentKeyMeta = &ae.KeyMeta{ID: pm.ID, Created: other}
				return func() { row.Rec.ParentKeyMeta = pm }
			}})
			ms = append(ms, rowMutation{fmt.Sprintf("row-parent-is-ik [%s]", tag), func() func() {
				row.Rec.ParentKeyMeta = &ae.KeyMeta{ID: id, Created: created}
				return func() { row.Rec.ParentKeyMeta = pm }
			}})
			ms = append(ms, rowMutation{fmt.Sprintf("row-parent-empty-id [%s]", tag), func() func() {
				row.Rec.ParentKeyMeta = &ae.KeyMeta{ID: "", Created: pm.Created}
				return func() { row.Rec.ParentKeyMeta = pm }
			}})
		}
	}
	return ms
}

// CheckC07 runs the mutation sets with cold and warm caches.
func CheckC07(r *Report) {
	r.Level = "exploration"
	r.Rule = "every single-bit flip and every truncation of Data and of the wrapped data key of 4 genuine records (2 partitions x 2 key generations), every recombination of the 5 record fields across them (4^5), structural cases (among them the parent key id replaced by every prefix / suffix / one-character deletion of itself and by separator-free, separator-only, extended and very long strings), loader failures, and every single-bit flip / truncation / structural corruption of every IK and SK row in the metastore; each through Decrypt (and Load), with a plain and with a region-suffixing metastore, on a cold session and on a session with every key cached; non-trivial = cases that pass the partition guard and reach key loading or AEAD verification (all mutations of genuine records do), distinct by construction"
	specs := []PolicySpec{SpecDefault}
	if r.Thorough() {
		specs = []PolicySpec{SpecDefault, SpecNoCache, SpecShared("lru", 1), SpecShared("slru", 2)}
	}
	sigSeen := map[string]bool{}
	add := func(v *kViol, ops interface{}, spec string) {
		if v == nil {
			return
		}
		r.Counters["violating-cases"]++
		sig := spec + ":" + v.Sig
		if !sigSeen[sig] {
			sigSeen[sig] = true
			r.Viols = append(r.Viols, Viol{Property: "C07", Harness: "C07/" + spec, Sig: sig, Msg: v.Msg, Ops: ops})
		}
	}
	type wcfg struct {
		spec   PolicySpec
		suffix string
	}
	var worlds []wcfg
	for _, spec := range specs {
		worlds = append(worlds, wcfg{spec, ""}, wcfg{spec, "us-west-2"})
	}
	for _, wc := range worlds {
		spec := wc.spec
		if wc.suffix != "" {
			spec.Name += "+region-suffix"
		}
		t0 := time.Now()
		cw := newC07World(spec, wc.suffix)
		cw.warmUp()
		for _, d := range cw.degraded {
			r.Vacuous = append(r.Vacuous, "C07/"+spec.Name+": "+d)
		}
		n := 0
		cases := cw.recordCases(r.Thorough())
		for _, c := range cases {
			// cold: fresh factory, fresh session
			ff := cw.w.NewFactory(spec)
			s, _ := ff.GetSession(c.part)
			add(cw.run(s, c, "cold"), c.name, spec.Name)
			s.Close()
			ff.Close()
			add(cw.run(cw.warm[c.part], c, "warm"), c.name, spec.Name)
			n += 2
		}
		if len(r.Samples) < 3 {
			r.Samples = append(r.Samples, map[string]interface{}{"spec": spec.Name, "cases": []string{cases[0].name, cases[len(cases)/2].name, cases[len(cases)-1].name}})
		}
		// metastore corruption: each genuine record is decrypted under each row mutation
		muts := cw.rowMutations()
		for _, m := range muts {
			undo := m.apply()
			for ri, rec := range cw.recs {
				c := &c07Case{name: m.name + fmt.Sprintf(" [decrypt rec %d]", ri), part: cw.parts[ri], drr: rec, accept: [][]byte{cw.pay[ri]}}
				ff := cw.w.NewFactory(spec)
				s, _ := ff.GetSession(c.part)
				add(cw.run(s, c, "cold"), c.name, spec.Name)
				s.Close()
				ff.Close()
				add(cw.run(cw.warm[c.part], c, "warm"), c.name, spec.Name)
				n += 2
			}
			undo()
		}
		// warm sessions again after the corruption series with stale entries: advance past the revoke check interval
		vclock.Advance((R + 1) * time.Second)
		for _, m := range muts {
			if !isStructuralRowMutation(m.name) {
				continue
			}
			undo := m.apply()
			for ri, rec := range cw.recs {
				c := &c07Case{name: m.name + fmt.Sprintf(" [stale-cache decrypt rec %d]", ri), part: cw.parts[ri], drr: rec, accept: [][]byte{cw.pay[ri]}}
				add(cw.run(cw.warm[c.part], c, "stale"), c.name, spec.Name)
				n++
			}
			undo()
			// re-freshen the cache entries so that every structural mutation meets a stale entry again
			vclock.Advance((R + 1) * time.Second)
		}
		r.Runs = append(r.Runs, RunInfo{Name: "C07/" + spec.Name, Executions: n, States: len(cases) + len(muts), Transitions: int64(n), Exhaustive: true,
			Bound: fmt.Sprintf("%d record mutants + %d metastore-row mutants x 4 records, cold+warm(+stale)", len(cases), len(muts)), WallS: time.Since(t0).Seconds()})
		r.Evaluations += n
		r.DistinctNontrivial += len(cases) + len(muts)*len(cw.recs)
		r.TracesValidated += n
		r.States += len(cases) + len(muts)
		r.Transitions += int64(n)
		_ = doubles.FaultNone
	}
	c07Storage(r, add)
	c07Sidecar(r, add)
	r.Rule += " || PLUS storage-level corruption: the key rows corrupted in the form the real metastores keep them (every truncation / one-character deletion / structural replacement of the SQL key_record JSON; every missing, null or wrongly typed attribute of the DynamoDB items, v1 and v2 plugins), decrypted by a cold factory and by a warm session || PLUS the same \"payload or error, never a panic\" through the sidecar's request mapping: every structurally malformed decrypt record after a successful get-session (with and without session caching)"
}

func isStructuralRowMutation(n string) bool {
	return !strings.HasPrefix(n, "row-key-bitflip") && !strings.HasPrefix(n, "row-key-truncated")
}
