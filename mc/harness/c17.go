package harness

import (
	"bytes"
	"context"
	"crypto/aes"
	"crypto/cipher"
	"crypto/sha256"
	"encoding/json"
	"errors"
	"fmt"
	aelog "github.com/godaddy/asherah/go/appencryption/pkg/log"
	"sort"
	"strings"
	"sync"
	"time"

	awsv2 "github.com/aws/aws-sdk-go-v2/aws"
	kmsv2 "github.com/aws/aws-sdk-go-v2/service/kms"
	awsv1 "github.com/aws/aws-sdk-go/aws"
	reqv1 "github.com/aws/aws-sdk-go/aws/request"
	kmsv1 "github.com/aws/aws-sdk-go/service/kms"

	ae "github.com/godaddy/asherah/go/appencryption"
	"github.com/godaddy/asherah/go/appencryption/pkg/crypto/aead"
	depkms "github.com/godaddy/asherah/go/appencryption/pkg/kms"
	"github.com/godaddy/asherah/go/appencryption/pkg/persistence"
	pv1 "github.com/godaddy/asherah/go/appencryption/plugins/aws-v1/kms"
	pv2 "github.com/godaddy/asherah/go/appencryption/plugins/aws-v2/kms"

	"asherahverif/doubles"
	"asherahverif/explore"
	"asherahverif/shim/vmap"
	"asherahverif/shim/vsched"
)

// ---------------------------------------------------------------------------------
// C17: AWS KMS plugins (SDK v1 and v2) over fake regional KMS endpoints: the full
// product of failing regions at wrap and unwrap time, preferred region, 1..N regions,
// and envelopes exchanged between the two plugins.
// ---------------------------------------------------------------------------------

// cloud is the shared state of the fake regional KMS endpoints.
type cloud struct {
	mu         sync.Mutex
	genFail    map[string]bool
	encFail    map[string]bool
	decState   map[string]int // 0 ok, 1 decrypt fails, 2 returns a wrong data key
	calls      []string       // "op:region" in global order
	retained   [][]byte       // plaintext slices handed to the plugins (GenerateDataKey / Decrypt outputs)
	retainedOp []string
	counter    uint64
	foreign    []string // requests that named a key of another region
	secrets    [][]byte // copies of every data-key plaintext the endpoints produced (needles of the log scan)
	failShape  string   // "", "deadline", "canceled", "wrapped-deadline": see failure()
	logs       []string // what the plugins logged (a logger is installed by awsSpace)
}

func newCloud() *cloud {
	return &cloud{genFail: map[string]bool{}, encFail: map[string]bool{}, decState: map[string]int{}}
}

func (c *cloud) reset() {
	c.mu.Lock()
	c.calls, c.retained, c.retainedOp, c.foreign, c.secrets, c.logs = nil, nil, nil, nil, nil, nil
	c.mu.Unlock()
}

func regionGCM(region string) cipher.AEAD {
	k := sha256.Sum256([]byte("master-key-of-" + region))
	b, _ := aes.NewCipher(k[:])
	g, _ := cipher.NewGCM(b)
	return g
}

func (c *cloud) seal(region string, pt []byte) []byte {
	g := regionGCM(region)
	c.counter++
	n := sha256.Sum256([]byte(fmt.Sprintf("nonce-%d", c.counter)))
	out := g.Seal(nil, n[:12], pt, nil)
	return append(out, n[:12]...)
}

func (c *cloud) open(region string, blob []byte) ([]byte, error) {
	if len(blob) < 28 {
		return nil, errors.New("fake kms: invalid ciphertext")
	}
	g := regionGCM(region)
	n := len(blob) - 12
	return g.Open(nil, blob[n:], blob[:n], nil)
}

var errFakeKMS = errors.New("fake kms: injected regional failure")

// failure returns the error a failing region answers with. The shape is a dimension of its own: an opaque service
// error, or a client-side timeout / cancellation of that one regional request (the caller's own context is still live).
func (c *cloud) failure() error {
	switch c.failShape {
	case "deadline":
		return context.DeadlineExceeded
	case "canceled":
		return context.Canceled
	case "wrapped-deadline":
		return fmt.Errorf("operation error KMS: request timed out: %w", context.DeadlineExceeded)
	}
	return errFakeKMS
}

type cloudLogger struct{ c **cloud }

func (l cloudLogger) Debugf(format string, v ...interface{}) {
	if c := *l.c; c != nil {
		c.mu.Lock()
		c.logs = append(c.logs, fmt.Sprintf(format, v...))
		c.mu.Unlock()
	}
}

// logLeak scans what the plugins logged during one EncryptKey / DecryptKey for plaintext key material: the system key
// being wrapped and every data-key plaintext the regional endpoints produced.
func (c *cloud) logLeak(sk []byte) (string, string) {
	c.mu.Lock()
	defer c.mu.Unlock()
	needles := map[string][]byte{"the system key": sk}
	for i, b := range c.secrets {
		needles[fmt.Sprintf("data-key plaintext #%d", i)] = b
	}
	return scanLogLines(c.logs, needles)
}

// checkKey is what a regional endpoint does with the key id of a request: a master key of another region (or no key
// id at all) is not found there. Every request is also a scheduling point of the schedule harness.
func (c *cloud) checkKey(op, region string, keyID *string) error {
	if vsched.Active() {
		vsched.Yield("kms." + op + "." + region)
	}
	if keyID != nil && *keyID == arnOf(region) {
		return nil
	}
	got := "<nil>"
	if keyID != nil {
		got = *keyID
	}
	c.mu.Lock()
	c.calls = append(c.calls, "foreignkey:"+region)
	c.foreign = append(c.foreign, fmt.Sprintf("%s in %s was asked for key %s", op, region, got))
	c.mu.Unlock()
	return fmt.Errorf("fake kms: NotFoundException: key %s does not exist in %s", got, region)
}

func (c *cloud) generate(region, arn string) ([]byte, []byte, error) {
	c.mu.Lock()
	defer c.mu.Unlock()
	c.calls = append(c.calls, "gen:"+region)
	if c.genFail[region] {
		return nil, nil, c.failure()
	}
	c.counter++
	pt := sha256.Sum256([]byte(fmt.Sprintf("data-key-%d", c.counter)))
	p := append([]byte(nil), pt[:]...)
	c.retained = append(c.retained, p)
	c.retainedOp = append(c.retainedOp, "GenerateDataKey:"+region)
	c.secrets = append(c.secrets, append([]byte(nil), p...))
	return p, c.seal(region, p), nil
}

func (c *cloud) encrypt(region string, pt []byte) ([]byte, error) {
	c.mu.Lock()
	defer c.mu.Unlock()
	c.calls = append(c.calls, "enc:"+region)
	// the request's plaintext is a data key: whatever slice the plugin built the request from must be wiped by the
	// time EncryptKey returns (kept by reference, unless it is a buffer already watched)
	if len(pt) > 0 {
		dup := false
		for _, b := range c.retained {
			if len(b) > 0 && &b[0] == &pt[0] {
				dup = true
			}
		}
		if !dup {
			c.retained = append(c.retained, pt)
			c.retainedOp = append(c.retainedOp, "Encrypt(request plaintext):"+region)
		}
	}
	if c.encFail[region] {
		return nil, c.failure()
	}
	return c.seal(region, pt), nil
}

func (c *cloud) decrypt(region string, blob []byte) ([]byte, error) {
	c.mu.Lock()
	defer c.mu.Unlock()
	c.calls = append(c.calls, "dec:"+region)
	switch c.decState[region] {
	case 1:
		return nil, c.failure()
	case 2:
		w := sha256.Sum256(append([]byte("wrong"), blob...))
		p := append([]byte(nil), w[:]...)
		c.retained = append(c.retained, p)
		c.retainedOp = append(c.retainedOp, "Decrypt(wrong):"+region)
		return p, nil
	}
	pt, err := c.open(region, blob)
	if err != nil {
		return nil, err
	}
	c.retained = append(c.retained, pt)
	c.retainedOp = append(c.retainedOp, "Decrypt:"+region)
	c.secrets = append(c.secrets, append([]byte(nil), pt...))
	return pt, nil
}

// ---- SDK v1 fake client
type fakeV1 struct {
	c      *cloud
	region string
}

func (f fakeV1) EncryptWithContext(_ awsv1.Context, in *kmsv1.EncryptInput, _ ...reqv1.Option) (*kmsv1.EncryptOutput, error) {
	if err := f.c.checkKey("enc", f.region, in.KeyId); err != nil {
		return nil, err
	}
	b, err := f.c.encrypt(f.region, in.Plaintext)
	if err != nil {
		return nil, err
	}
	return &kmsv1.EncryptOutput{CiphertextBlob: b, KeyId: in.KeyId}, nil
}

func (f fakeV1) GenerateDataKeyWithContext(_ awsv1.Context, in *kmsv1.GenerateDataKeyInput, _ ...reqv1.Option) (*kmsv1.GenerateDataKeyOutput, error) {
	if err := f.c.checkKey("gen", f.region, in.KeyId); err != nil {
		return nil, err
	}
	p, b, err := f.c.generate(f.region, *in.KeyId)
	if err != nil {
		return nil, err
	}
	return &kmsv1.GenerateDataKeyOutput{Plaintext: p, CiphertextBlob: b, KeyId: in.KeyId}, nil
}

func (f fakeV1) DecryptWithContext(_ awsv1.Context, in *kmsv1.DecryptInput, _ ...reqv1.Option) (*kmsv1.DecryptOutput, error) {
	if vsched.Active() {
		vsched.Yield("kms.dec." + f.region)
	}
	p, err := f.c.decrypt(f.region, in.CiphertextBlob)
	if err != nil {
		return nil, err
	}
	return &kmsv1.DecryptOutput{Plaintext: p}, nil
}

// ---- SDK v2 fake client
type fakeV2 struct {
	c      *cloud
	region string
}

func (f fakeV2) Encrypt(_ context.Context, in *kmsv2.EncryptInput, _ ...func(*kmsv2.Options)) (*kmsv2.EncryptOutput, error) {
	if err := f.c.checkKey("enc", f.region, in.KeyId); err != nil {
		return nil, err
	}
	b, err := f.c.encrypt(f.region, in.Plaintext)
	if err != nil {
		return nil, err
	}
	return &kmsv2.EncryptOutput{CiphertextBlob: b, KeyId: in.KeyId}, nil
}

func (f fakeV2) Decrypt(_ context.Context, in *kmsv2.DecryptInput, _ ...func(*kmsv2.Options)) (*kmsv2.DecryptOutput, error) {
	if vsched.Active() {
		vsched.Yield("kms.dec." + f.region)
	}
	p, err := f.c.decrypt(f.region, in.CiphertextBlob)
	if err != nil {
		return nil, err
	}
	return &kmsv2.DecryptOutput{Plaintext: p}, nil
}

func (f fakeV2) GenerateDataKey(_ context.Context, in *kmsv2.GenerateDataKeyInput, _ ...func(*kmsv2.Options)) (*kmsv2.GenerateDataKeyOutput, error) {
	if err := f.c.checkKey("gen", f.region, in.KeyId); err != nil {
		return nil, err
	}
	p, b, err := f.c.generate(f.region, *in.KeyId)
	if err != nil {
		return nil, err
	}
	return &kmsv2.GenerateDataKeyOutput{Plaintext: p, CiphertextBlob: b, KeyId: in.KeyId}, nil
}

var c17Regions = []string{"us-west-2", "us-east-1", "eu-west-1", "ap-south-1"}

func arnOf(region string) string { return "arn:aws:kms:" + region + ":123456789012:key/" + region }

type kmsPlugin interface {
	EncryptKey(context.Context, []byte) ([]byte, error)
	DecryptKey(context.Context, []byte) ([]byte, error)
}

// flakyAEAD is the AEAD handed to the plugins: the real AES-256-GCM, made to fail on demand.
type flakyAEAD struct {
	ae.AEAD
	failEnc, failDec bool
}

func (f *flakyAEAD) Encrypt(data, key []byte) ([]byte, error) {
	if f.failEnc {
		return nil, errors.New("aead: injected encrypt failure")
	}
	return f.AEAD.Encrypt(data, key)
}

func (f *flakyAEAD) Decrypt(data, key []byte) ([]byte, error) {
	if f.failDec {
		return nil, errors.New("aead: injected decrypt failure")
	}
	return f.AEAD.Decrypt(data, key)
}

// c17AEAD is the AEAD of the plugin built last (its failure switches are flipped by awsAEADFaults).
var c17AEAD *flakyAEAD

func buildPlugin(ver string, c *cloud, regions []string, preferred string) (kmsPlugin, error) {
	c17AEAD = &flakyAEAD{AEAD: aead.NewAES256GCM()}
	var crypto ae.AEAD = c17AEAD
	if ver == "v1" {
		var clients []pv1.AWSKMSClient
		// hand the clients over in reverse order so that "preferred first" is the plugin's doing
		for i := len(regions) - 1; i >= 0; i-- {
			clients = append(clients, pv1.AWSKMSClient{KMS: fakeV1{c, regions[i]}, Region: regions[i], ARN: arnOf(regions[i])})
		}
		return pv1.VerifNewAWS(crypto, preferred, clients)
	}
	if ver == "v1pub" || ver == "v1dep" {
		// through the public constructor (the plugin's own region -> ARN client construction and ordering), the network
		// clients it built replaced by the fakes; "v1dep" goes through the deprecated forwarder in pkg/kms
		arn := map[string]string{}
		for _, r := range regions {
			arn[r] = arnOf(r)
		}
		var p *pv1.AWSKMS
		var err error
		if ver == "v1dep" {
			p, err = depkms.NewAWS(crypto, preferred, arn)
		} else {
			p, err = pv1.NewAWS(crypto, preferred, arn)
		}
		if err != nil {
			return nil, err
		}
		for i := range p.Clients {
			if p.Clients[i].ARN != arnOf(p.Clients[i].Region) {
				return nil, fmt.Errorf("VIOLATION-IN-CONSTRUCTION: the client of region %s was built with key %s", p.Clients[i].Region, p.Clients[i].ARN)
			}
			p.Clients[i].KMS = fakeV1{c, p.Clients[i].Region}
		}
		return p, nil
	}
	arn := map[string]string{}
	for _, r := range regions {
		arn[r] = arnOf(r)
	}
	base := awsv2.Config{}
	if ver == "v2cfg" {
		base.Region = regions[len(regions)-1] // a base configuration that already names a region (AWS_REGION / profile)
	}
	return pv2.NewBuilder(crypto, arn).WithPreferredRegion(preferred).WithAWSConfig(base).
		WithKMSFactory(func(cfg awsv2.Config, _ ...func(*kmsv2.Options)) pv2.AWSClient { return fakeV2{c, cfg.Region} }).Build()
}

type envJSON struct {
	EncryptedKey []byte `json:"encryptedKey"`
	KMSKeks      []struct {
		Region       string `json:"region"`
		ARN          string `json:"arn"`
		EncryptedKek []byte `json:"encryptedKek"`
	} `json:"kmsKeks"`
}

// awsSpace enumerates the product; failures are attributed to prop "C17" or "C10".
func awsSpace(r *Report, prop string, maxN int) {
	t0 := time.Now()
	sigSeen := map[string]bool{}
	fail := func(p, sig, ops, format string, a ...interface{}) {
		if p != prop {
			return
		}
		r.Counters["violating-cases"]++
		if !sigSeen[sig] {
			sigSeen[sig] = true
			r.Viols = append(r.Viols, Viol{Property: prop, Harness: "AWS/" + ops, Sig: sig, Msg: fmt.Sprintf(format, a...), Ops: ops})
		}
	}
	sk := []byte("system-key-bytes-32-bytes-long!!")
	var curCloud *cloud
	aelog.SetLogger(cloudLogger{&curCloud})
	ncases, nontrivial := 0, 0
	orders := map[string]bool{}
	for n := 1; n <= maxN; n++ {
		regions := c17Regions[:n]
		for _, preferred := range regions {
			for _, pair := range [][2]string{{"v1", "v1"}, {"v2", "v2"}, {"v1", "v2"}, {"v2", "v1"}, {"v1pub", "v1dep"}, {"v2cfg", "v2cfg"}} {
				c := newCloud()
				curCloud = c
				wrapper, err := buildPlugin(pair[0], c, regions, preferred)
				if err != nil {
					if strings.Contains(err.Error(), "VIOLATION-IN-CONSTRUCTION") {
						fail("C17", "client-built-with-foreign-key", fmt.Sprintf("n=%d preferred=%s %s", n, preferred, pair[0]), "%v", err)
						continue
					}
					r.MachineryError = fmt.Sprintf("building %s plugin: %v", pair[0], err)
					return
				}
				unwrapper, err := buildPlugin(pair[1], c, regions, preferred)
				if err != nil {
					if strings.Contains(err.Error(), "VIOLATION-IN-CONSTRUCTION") {
						fail("C17", "client-built-with-foreign-key", fmt.Sprintf("n=%d preferred=%s %s", n, preferred, pair[1]), "%v", err)
						continue
					}
					r.MachineryError = fmt.Sprintf("building %s plugin: %v", pair[1], err)
					return
				}
				pow := func(b, e int) int {
					x := 1
					for i := 0; i < e; i++ {
						x *= b
					}
					return x
				}
				for ws := 0; ws < pow(4, n); ws++ {
					for i, rg := range regions {
						d := (ws / pow(4, i)) % 4
						c.genFail[rg] = d&1 != 0
						c.encFail[rg] = d&2 != 0
					}
					c.reset()
					tag := fmt.Sprintf("n=%d preferred=%s %s->%s wrap=%d", n, preferred, pair[0], pair[1], ws)
					env, werr := wrapper.EncryptKey(ctx, append([]byte(nil), sk...))
					ncases++
					// ---- wrap oracle
					var genCalls []string
					for _, cl := range c.calls {
						if strings.HasPrefix(cl, "gen:") {
							genCalls = append(genCalls, cl[4:])
						}
					}
					canGen := false
					for _, rg := range regions {
						if !c.genFail[rg] {
							canGen = true
						}
					}
					if canGen != (werr == nil) {
						fail("C17", "wrap-success-mismatch", tag, "%s: EncryptKey error=%v although generate-capable regions exist=%v", tag, werr, canGen)
						continue
					}
					if len(genCalls) > 0 && genCalls[0] != preferred {
						fail("C17", "wrap-not-preferred-first", tag, "%s: GenerateDataKey was first attempted in %s, not in the preferred region", tag, genCalls[0])
					}
					seenR := map[string]bool{}
					for _, g := range genCalls {
						if seenR[g] {
							fail("C17", "wrap-region-twice", tag, "%s: GenerateDataKey attempted twice in %s", tag, g)
						}
						seenR[g] = true
					}
					orders[pair[0]+":"+strings.Join(genCalls, ",")] = true
					if len(c.foreign) > 0 {
						fail("C17", "request-names-foreign-key:"+pair[0], tag, "%s: %s", tag, c.foreign[0])
					}
					if nn, line := c.logLeak(sk); nn != "" {
						fail("C03", "aws-plaintext-leak-log:wrap:"+pair[0], tag, "%s: EncryptKey of the %s plugin printed %s into a log line: %.160q", tag, pair[0], nn, line)
					}
					for i, b := range c.retained {
						if !allZero(b) {
							fail("C17", "datakey-plaintext-not-wiped", tag, "%s: plaintext from %s still readable after EncryptKey returned", tag, c.retainedOp[i])
							fail("C10", "aws-datakey-plaintext-not-wiped:"+pair[0], tag, "%s: plaintext from %s still readable after EncryptKey returned", tag, c.retainedOp[i])
						}
					}
					if werr != nil {
						continue
					}
					gen := genCalls[len(genCalls)-1]
					if c.genFail[gen] {
						fail("C17", "wrap-generator", tag, "%s: generation stopped at a failing region", tag)
					}
					want := map[string]bool{gen: true}
					for _, rg := range regions {
						if rg != gen && !c.encFail[rg] {
							want[rg] = true
						}
					}
					var ej envJSON
					if err := json.Unmarshal(env, &ej); err != nil {
						fail("C17", "envelope-json", tag, "%s: envelope is not the documented JSON: %v", tag, err)
						continue
					}
					got := map[string]int{}
					for _, k := range ej.KMSKeks {
						got[k.Region]++
						if k.ARN != arnOf(k.Region) {
							fail("C17", "envelope-arn", tag, "%s: entry for %s carries ARN %s", tag, k.Region, k.ARN)
						}
					}
					for rg := range want {
						if got[rg] != 1 {
							fail("C17", "envelope-entry-missing", tag, "%s: region %s succeeded but has %d entries in the envelope (entries: %v)", tag, rg, got[rg], got)
						}
					}
					for rg := range got {
						if !want[rg] {
							fail("C17", "envelope-entry-spurious", tag, "%s: region %s failed but has an entry", tag, rg)
						}
					}
					// ---- unwrap: every unwrap-time failure pattern, plus envelopes with one entry removed
					variants := [][]byte{env}
					if len(ej.KMSKeks) > 1 {
						for drop := range ej.KMSKeks {
							e2 := ej
							e2.KMSKeks = append(append(e2.KMSKeks[:0:0], ej.KMSKeks[:drop]...), ej.KMSKeks[drop+1:]...)
							b, _ := json.Marshal(e2)
							variants = append(variants, b)
						}
					}
					for vi, envv := range variants {
						var ev envJSON
						json.Unmarshal(envv, &ev)
						has := map[string]bool{}
						for _, k := range ev.KMSKeks {
							has[k.Region] = true
						}
						for us := 0; us < pow(3, n); us++ {
							for i, rg := range regions {
								c.decState[rg] = (us / pow(3, i)) % 3
							}
							c.reset()
							utag := fmt.Sprintf("%s variant=%d unwrap=%d", tag, vi, us)
							out, derr := unwrapper.DecryptKey(ctx, append([]byte(nil), envv...))
							ncases++
							can := false
							for _, rg := range regions {
								if has[rg] && c.decState[rg] == 0 {
									can = true
								}
							}
							if can {
								nontrivial++
							}
							if can != (derr == nil) {
								fail("C17", "unwrap-success-mismatch", utag, "%s: DecryptKey error=%v although a configured region with an entry can decrypt=%v", utag, derr, can)
								continue
							}
							if derr == nil && !bytes.Equal(out, sk) {
								fail("C17", "unwrap-wrong-bytes", utag, "%s: DecryptKey returned different key bytes", utag)
							}
							var dec []string
							for _, cl := range c.calls {
								if strings.HasPrefix(cl, "dec:") {
									dec = append(dec, cl[4:])
								}
							}
							if has[preferred] && len(dec) > 0 && dec[0] != preferred {
								fail("C17", "unwrap-not-preferred-first", utag, "%s: first Decrypt went to %s although the preferred region %s has an entry", utag, dec[0], preferred)
							}
							seenD := map[string]bool{}
							for i, d := range dec {
								if seenD[d] {
									fail("C17", "unwrap-region-twice", utag, "%s: region %s tried twice", utag, d)
								}
								seenD[d] = true
								if !has[d] {
									fail("C17", "unwrap-region-without-entry", utag, "%s: Decrypt sent to %s which has no entry", utag, d)
								}
								if c.decState[d] == 0 && i != len(dec)-1 {
									fail("C17", "unwrap-continued-after-success", utag, "%s: Decrypt calls continued after %s succeeded: %v", utag, d, dec)
								}
							}
							if nn, line := c.logLeak(sk); nn != "" {
								fail("C03", "aws-plaintext-leak-log:unwrap:"+pair[1], utag, "%s: DecryptKey of the %s plugin printed %s into a log line: %.160q", utag, pair[1], nn, line)
							}
							for i, b := range c.retained {
								if !allZero(b) {
									fail("C10", "aws-decrypt-plaintext-not-wiped:"+pair[1], utag, "%s: data-key plaintext from %s still readable after DecryptKey returned", utag, c.retainedOp[i])
								}
							}
						}
					}
					for _, rg := range regions {
						c.decState[rg] = 0
					}
				}
			}
		}
	}
	var os []string
	for o := range orders {
		os = append(os, o)
	}
	sort.Strings(os)
	if len(os) > 6 {
		os = os[:6]
	}
	r.Runs = append(r.Runs, RunInfo{Name: "AWS/kms-plugins", Executions: ncases, States: len(orders), Transitions: int64(ncases), Exhaustive: true,
		Bound: fmt.Sprintf("1..%d regions x every preferred region x 4^n wrap-time failure patterns x 3^n unwrap-time patterns x {v1->v1, v2->v2, v1->v2, v2->v1} x envelopes with one entry removed", maxN), WallS: time.Since(t0).Seconds()})
	r.Evaluations += ncases
	r.TracesValidated += ncases
	r.DistinctNontrivial += nontrivial
	r.States += len(orders)
	r.Transitions += int64(ncases)
	if len(r.Samples) < 4 {
		r.Samples = append(r.Samples, map[string]interface{}{"observed_generate_orders": os})
	}
	if prop == "C17" {
		awsMapOrders(r, maxN, fail)
		awsErrorShapes(r, maxN, fail)
	}
	if prop == "C17" || prop == "C10" {
		awsAEADFaults(r, maxN, fail)
	}
}

// CheckC17 runs the product for the tier's region count.
func CheckC17(r *Report) {
	r.Level = "fault_enumeration"
	r.Rule = "both AWS KMS plugins over fake regional endpoints: n in 1..N regions, every preferred region, every subset of regions failing GenerateDataKey and/or Encrypt at wrap time, every assignment of {ok, Decrypt fails, wrong data key} at unwrap time, the four wrap/unwrap plugin pairings, and envelopes with one entry removed; non-trivial = unwrap cases in which at least one region could decrypt"
	n := 3
	if r.Thorough() {
		n = 4
	}
	awsSpace(r, "C17", n)
	c17Sched(r)
	r.Rule += " || PLUS schedules: every interleaving (preemption bound 2, thorough 3) of the regional fan-out goroutines of EncryptKey with 3 (4) regions on both plugins, the regional endpoints being scheduling points that reject requests naming another region's key; the envelope has exactly one entry per succeeded region and every such region alone unwraps it"
}

var _ = ae.AES256KeySize

// permutations of 0..n-1 in lexicographic order.
func permutations(n int) [][]int {
	var out [][]int
	var rec func(cur []int, used []bool)
	rec = func(cur []int, used []bool) {
		if len(cur) == n {
			out = append(out, append([]int{}, cur...))
			return
		}
		for i := 0; i < n; i++ {
			if !used[i] {
				used[i] = true
				rec(append(cur, i), used)
				used[i] = false
			}
		}
	}
	rec(nil, make([]bool, n))
	return out
}

// awsAEADFaults: the local AEAD step of the plugins fails (wrapping the system key under the fresh data key / unwrapping
// it): the call returns an error and every data-key plaintext the regional endpoints handed out is wiped all the same.
func awsAEADFaults(r *Report, maxN int, fail func(p, sig, ops, format string, a ...interface{})) {
	n0 := 0
	sk := []byte("system-key-bytes-32-bytes-long!!")
	for n := 1; n <= maxN; n++ {
		regions := c17Regions[:n]
		for _, preferred := range regions {
			for _, ver := range []string{"v1", "v2"} {
				c := newCloud()
				p, err := buildPlugin(ver, c, regions, preferred)
				if err != nil {
					continue
				}
				crypto := c17AEAD
				tag := fmt.Sprintf("n=%d preferred=%s %s aead-fault", n, preferred, ver)
				env, err := p.EncryptKey(ctx, append([]byte(nil), sk...))
				if err != nil {
					fail("C17", "wrap-failed", tag, "%s: EncryptKey failed without faults: %v", tag, err)
					continue
				}
				// wrap with a failing AEAD
				c.reset()
				crypto.failEnc = true
				_, werr := p.EncryptKey(ctx, append([]byte(nil), sk...))
				crypto.failEnc = false
				n0++
				if werr == nil {
					fail("C17", "aead-failure-swallowed:wrap:"+ver, tag, "%s: the AEAD failed while wrapping but EncryptKey reported success", tag)
				}
				for i, b := range c.retained {
					if !allZero(b) {
						fail("C17", "datakey-plaintext-not-wiped:aead-failure:"+ver, tag, "%s: plaintext from %s still readable after EncryptKey failed at the AEAD step", tag, c.retainedOp[i])
						fail("C10", "aws-datakey-plaintext-not-wiped:aead-failure:"+ver, tag, "%s: plaintext from %s still readable after EncryptKey failed at the AEAD step", tag, c.retainedOp[i])
					}
				}
				// unwrap with a failing AEAD: every region is tried, every returned plaintext wiped, an error comes back
				c.reset()
				crypto.failDec = true
				_, derr := p.DecryptKey(ctx, env)
				crypto.failDec = false
				n0++
				if derr == nil {
					fail("C17", "aead-failure-swallowed:unwrap:"+ver, tag, "%s: the AEAD failed while unwrapping but DecryptKey reported success", tag)
				}
				for i, b := range c.retained {
					if !allZero(b) {
						fail("C17", "datakey-plaintext-not-wiped:aead-failure:"+ver, tag, "%s: plaintext from %s still readable after DecryptKey failed at the AEAD step", tag, c.retainedOp[i])
						fail("C10", "aws-decrypt-plaintext-not-wiped:aead-failure:"+ver, tag, "%s: plaintext from %s still readable after DecryptKey failed at the AEAD step", tag, c.retainedOp[i])
					}
				}
				// and afterwards everything works again
				if out, err := p.DecryptKey(ctx, env); err != nil || !bytes.Equal(out, sk) {
					fail("C17", "no-recovery-after-aead-failure:"+ver, tag, "%s: DecryptKey fails after the AEAD recovered: %v", tag, err)
				}
			}
		}
	}
	r.Evaluations += n0
	r.TracesValidated += n0
	r.Transitions += int64(n0)
	r.Counters["aws-aead-fault-cases"] += n0
}

// awsErrorShapes: a regional failure may look like a timeout or a cancellation of that one request. Whatever it looks
// like, the other regions are still tried: for every n >= 2, preferred region, plugin and shape, each single region in
// turn fails GenerateDataKey and Encrypt (wrap) or Decrypt (unwrap) with that shape; wrapping and unwrapping succeed
// through the remaining regions.
func awsErrorShapes(r *Report, maxN int, fail func(p, sig, ops, format string, a ...interface{})) {
	n0 := 0
	sk := []byte("system-key-bytes-32-bytes-long!!")
	for n := 2; n <= maxN; n++ {
		regions := c17Regions[:n]
		for _, preferred := range regions {
			for _, ver := range []string{"v1", "v2"} {
				for _, shape := range []string{"deadline", "canceled", "wrapped-deadline"} {
					for _, bad := range regions {
						c := newCloud()
						p, err := buildPlugin(ver, c, regions, preferred)
						if err != nil {
							continue
						}
						tag := fmt.Sprintf("n=%d preferred=%s %s shape=%s failing=%s", n, preferred, ver, shape, bad)
						c.failShape = shape
						c.genFail[bad], c.encFail[bad] = true, true
						env, err := p.EncryptKey(ctx, append([]byte(nil), sk...))
						n0++
						if err != nil {
							fail("C17", "wrap-gives-up-on-"+shape+":"+ver, tag, "%s: EncryptKey failed although %d other region(s) can generate a data key: %v (calls %v)", tag, n-1, err, c.calls)
							continue
						}
						var ej envJSON
						if jerr := json.Unmarshal(env, &ej); jerr != nil || len(ej.KMSKeks) != n-1 {
							fail("C17", "wrap-entries-on-"+shape+":"+ver, tag, "%s: the envelope has %d entries, want %d (every region but the failing one)", tag, len(ej.KMSKeks), n-1)
						}
						c.genFail[bad], c.encFail[bad] = false, false
						// unwrap: each region that has an entry fails Decrypt in turn with that shape
						for _, down := range regions {
							if down == bad {
								continue
							}
							c.reset()
							c.decState[down] = 1
							out, derr := p.DecryptKey(ctx, env)
							c.decState[down] = 0
							n0++
							if n-1 >= 2 && (derr != nil || !bytes.Equal(out, sk)) {
								fail("C17", "unwrap-gives-up-on-"+shape+":"+ver, tag, "%s: DecryptKey failed when %s answered with a %s although another region with an entry can decrypt: %v (calls %v)", tag, down, shape, derr, c.calls)
							}
						}
					}
				}
			}
		}
	}
	r.Evaluations += n0
	r.TracesValidated += n0
	r.Transitions += int64(n0)
	r.Counters["aws-error-shape-cases"] += n0
}

// awsMapOrders: the plugins build their clients by ranging over the region -> ARN map, whose iteration order Go leaves
// unspecified. Every iteration order (n! of them) x every preferred region x both public constructors: the preferred
// region is tried first for GenerateDataKey and for Decrypt, and the envelope has one entry per region.
func awsMapOrders(r *Report, maxN int, fail func(p, sig, ops, format string, a ...interface{})) {
	t0 := time.Now()
	n0 := 0
	sk := []byte("system-key-bytes-32-bytes-long!!")
	defer func() { vmap.Order = nil }()
	for n := 2; n <= maxN; n++ {
		regions := c17Regions[:n]
		for pi, perm := range permutations(n) {
			perm := perm
			for _, preferred := range regions {
				for _, ver := range []string{"v1pub", "v2"} {
					vmap.Order = func(k int) []int {
						if k == n {
							return perm
						}
						return nil
					}
					c := newCloud()
					p, err := buildPlugin(ver, c, regions, preferred)
					vmap.Order = nil
					tag := fmt.Sprintf("n=%d preferred=%s %s map-order#%d%v", n, preferred, ver, pi, perm)
					if err != nil {
						fail("C17", "client-built-with-foreign-key", tag, "%s: %v", tag, err)
						continue
					}
					n0++
					env, err := p.EncryptKey(ctx, append([]byte(nil), sk...))
					if err != nil {
						fail("C17", "map-order:wrap-failed", tag, "%s: EncryptKey failed without any regional failure: %v", tag, err)
						continue
					}
					first := ""
					for _, cl := range c.calls {
						if strings.HasPrefix(cl, "gen:") {
							first = cl[4:]
							break
						}
					}
					if first != preferred {
						fail("C17", "map-order:wrap-not-preferred-first:"+ver, tag, "%s: GenerateDataKey was first attempted in %s, not in the preferred region (calls %v)", tag, first, c.calls)
					}
					var ej envJSON
					if err := json.Unmarshal(env, &ej); err != nil || len(ej.KMSKeks) != n {
						fail("C17", "map-order:wrap-entries:"+ver, tag, "%s: the envelope has %d entries, want %d (%v)", tag, len(ej.KMSKeks), n, err)
					}
					c.reset()
					out, err := p.DecryptKey(ctx, env)
					if err != nil || !bytes.Equal(out, sk) {
						fail("C17", "map-order:unwrap-failed:"+ver, tag, "%s: DecryptKey failed: %v", tag, err)
						continue
					}
					firstDec := ""
					for _, cl := range c.calls {
						if strings.HasPrefix(cl, "dec:") {
							firstDec = cl[4:]
							break
						}
					}
					if firstDec != preferred {
						fail("C17", "map-order:unwrap-not-preferred-first:"+ver, tag, "%s: the first Decrypt went to %s although the preferred region has an entry (calls %v)", tag, firstDec, c.calls)
					}
				}
			}
		}
	}
	r.Runs = append(r.Runs, RunInfo{Name: "AWS/map-iteration-orders", Executions: n0, States: n0, Transitions: int64(2 * n0), Exhaustive: true,
		Bound: fmt.Sprintf("every iteration order of the region map (n! for n = 2..%d) x every preferred region x the public constructors of both plugins", maxN), WallS: time.Since(t0).Seconds()})
	r.Evaluations += n0
	r.TracesValidated += n0
	r.Transitions += int64(2 * n0)
}

// ---------------------------------------------------------------------------------
// C17 (schedules): the plugins fan the regional Encrypt requests out to goroutines. EncryptKey (and the DecryptKey of
// the result through every single region) is explored under the scheduler: every interleaving of the fan-out up to
// the preemption bound, with the regional endpoints as scheduling points.
// ---------------------------------------------------------------------------------

type c17SchedScenario struct {
	name      string
	ver       string
	n         int
	preferred int
	encFail   int // index of a region whose Encrypt fails, -1 none
}

func (sc c17SchedScenario) body(c *explore.Ctx) {
	vsched.BeginQuiet()
	cl := newCloud()
	regions := c17Regions[:sc.n]
	p, err := buildPlugin(sc.ver, cl, regions, regions[sc.preferred])
	if err != nil {
		panic(err)
	}
	if sc.encFail >= 0 {
		cl.encFail[regions[sc.encFail]] = true
	}
	singles := map[string]kmsPlugin{}
	for _, rg := range regions {
		singles[rg], err = buildPlugin(sc.ver, cl, []string{rg}, rg)
		if err != nil {
			panic(err)
		}
	}
	sk := []byte("system-key-bytes-32-bytes-long!!")
	vsched.EndQuiet()
	var env []byte
	var werr error
	pan := safe(func() { env, werr = p.EncryptKey(ctx, append([]byte(nil), sk...)) })
	vsched.Quiesce()
	if pan != "" {
		c.Failf("panic", "EncryptKey panicked: %s", pan)
		return
	}
	if b := vsched.Blocked(); len(b) > 0 {
		c.Failf("goroutine-left-behind", "goroutines still parked after EncryptKey returned: %v", b)
	}
	if werr != nil {
		c.Failf("wrap-failed", "EncryptKey failed although the preferred region can generate a data key: %v", werr)
		return
	}
	if len(cl.foreign) > 0 {
		c.Failf("request-names-foreign-key", "%s (calls %v)", cl.foreign[0], cl.calls)
	}
	for i, b := range cl.retained {
		if !allZero(b) {
			c.Failf("datakey-plaintext-not-wiped", "plaintext from %s still readable after EncryptKey returned", cl.retainedOp[i])
		}
	}
	var ej envJSON
	if err := json.Unmarshal(env, &ej); err != nil {
		c.Failf("envelope-json", "envelope is not the documented JSON: %v", err)
		return
	}
	got := map[string]int{}
	for _, k := range ej.KMSKeks {
		got[k.Region]++
		if k.ARN != arnOf(k.Region) {
			c.Failf("entry-wrong-arn", "the entry of region %s names key %s", k.Region, k.ARN)
		}
	}
	var order []string
	for i, rg := range regions {
		want := 1
		if i == sc.encFail && i != sc.preferred {
			want = 0
		}
		if got[rg] != want {
			c.Failf("wrap-entries", "region %s has %d entries in the envelope, want %d (every region that succeeded exactly once); calls %v", rg, got[rg], want, cl.calls)
		}
		if want == 1 && got[rg] == 1 {
			// that region alone unwraps to the identical bytes
			vsched.BeginQuiet()
			out, derr := singles[rg].DecryptKey(ctx, env)
			vsched.EndQuiet()
			if derr != nil || !bytes.Equal(out, sk) {
				c.Failf("single-region-unwrap", "region %s alone cannot unwrap the envelope to the identical bytes: %v", rg, derr)
			}
		}
	}
	for _, k := range ej.KMSKeks {
		order = append(order, k.Region)
	}
	c.Outcome(strings.Join(order, ","))
}

func c17SchedScenarios(thorough bool) []c17SchedScenario {
	var out []c17SchedScenario
	for _, ver := range []string{"v1", "v2"} {
		out = append(out,
			c17SchedScenario{ver + "/3-regions-preferred-middle", ver, 3, 1, -1},
			c17SchedScenario{ver + "/3-regions-one-encrypt-fails", ver, 3, 0, 2},
		)
		if thorough {
			out = append(out,
				c17SchedScenario{ver + "/4-regions-preferred-last", ver, 4, 3, -1},
				c17SchedScenario{ver + "/4-regions-one-encrypt-fails", ver, 4, 1, 0},
			)
		}
	}
	return out
}

func c17Sched(r *Report) {
	for _, sc := range c17SchedScenarios(r.Thorough()) {
		sc := sc
		if !r.TimeLeft() {
			r.Exhaustive = false
			r.Caps = append(r.Caps, "C17s/"+sc.name+": not started (time budget)")
			continue
		}
		bound := 2
		if r.Thorough() {
			bound = 3
		}
		t0 := time.Now()
		cfg := explore.Config{Name: "C17s/" + sc.name, Preemptions: bound, HBCache: true, Deadline: r.Deadline, MaxViolations: 20}
		res := explore.Explore(cfg, sc.body)
		seen := map[string]bool{}
		var keep []explore.Violation
		for _, v := range res.Violations {
			if !seen[v.Sig] {
				seen[v.Sig] = true
				keep = append(keep, v)
			}
		}
		res.Violations = keep
		r.AddExplore(res, fmt.Sprintf("preemptions <= %d", bound), time.Since(t0).Seconds())
	}
}

func c17SchedReplayBody(h string) explore.Body {
	for _, sc := range c17SchedScenarios(true) {
		if "C17s/"+sc.name == h {
			return sc.body
		}
	}
	return nil
}

func persistenceMemory() ae.Metastore { return persistence.NewMemoryMetastore() }

// newPlainFactory is a tracking factory used where no accounting is needed.
func newPlainFactory() *doubles.TrackFactory { return doubles.NewTrackFactory() }

// c01AWS is C01's mini-run over the AWS KMS plugins: factories that share the metastore and the regional KMS keys
// but are configured with different regions (or see a region down) must decrypt each other's records.
func c01AWS(r *Report) {
	n := 0
	for _, ver := range []string{"v1", "v2"} {
		for _, scenario := range []string{"reader-has-only-second-region", "reader-sees-first-region-down", "reader-prefers-second-region"} {
			n++
			name := fmt.Sprintf("aws-%s-%s", ver, scenario)
			bad := func(sig, format string, a ...interface{}) {
				r.Viols = append(r.Viols, Viol{Property: "C01", Harness: "C01/aws", Sig: sig + "@" + name, Msg: fmt.Sprintf(format, a...), Ops: []string{name}})
			}
			resetGlobals()
			c := newCloud()
			ms := persistenceMemory()
			two := []string{"us-west-2", "us-east-1"}
			writerKMS, err := buildPlugin(ver, c, two, "us-west-2")
			if err != nil {
				r.MachineryError = err.Error()
				return
			}
			var readerKMS kmsPlugin
			switch scenario {
			case "reader-has-only-second-region":
				readerKMS, err = buildPlugin(ver, c, []string{"us-east-1"}, "us-east-1")
			case "reader-prefers-second-region":
				readerKMS, err = buildPlugin(ver, c, two, "us-east-1")
			default:
				readerKMS, err = buildPlugin(ver, c, two, "us-west-2")
			}
			if err != nil {
				r.MachineryError = err.Error()
				return
			}
			mk := func(k kmsPlugin) *ae.SessionFactory {
				return ae.NewSessionFactory(&ae.Config{Service: "s", Product: "p", Policy: SpecDefault.Build()}, ms, k, aead.NewAES256GCM(), ae.WithSecretFactory(newPlainFactory()))
			}
			fw, fr := mk(writerKMS), mk(readerKMS)
			sw, _ := fw.GetSession("A")
			pay := []byte("written-in-us-west-2")
			rec, err := sw.Encrypt(ctx, append([]byte(nil), pay...))
			if err != nil {
				bad("aws-encrypt", "encrypt through the %s plugin failed: %v", ver, err)
				continue
			}
			if scenario == "reader-sees-first-region-down" {
				c.decState["us-west-2"] = 1
			}
			sr, _ := fr.GetSession("A")
			if out, err := sr.Decrypt(ctx, *cloneDRR(rec)); err != nil || !bytes.Equal(out, pay) {
				bad("aws-cross-region-decrypt", "a factory sharing the metastore and the KMS keys (%s) cannot decrypt the record: %v", scenario, err)
			}
			// and back: the reader writes under the same (or a rotated) hierarchy, the writer reads
			pay2 := []byte("written-by-the-reader")
			if rec2, err := sr.Encrypt(ctx, append([]byte(nil), pay2...)); err != nil {
				bad("aws-encrypt-reader", "encrypt by the reader failed: %v", err)
			} else {
				c.decState["us-west-2"] = 0
				if out, err := sw.Decrypt(ctx, *cloneDRR(rec2)); err != nil || !bytes.Equal(out, pay2) {
					bad("aws-cross-region-decrypt-back", "the writer cannot decrypt the reader's record (%s): %v", scenario, err)
				}
			}
			sw.Close()
			sr.Close()
			fw.Close()
			fr.Close()
		}
	}
	r.Evaluations += 2 * n
	r.Transitions += int64(2 * n)
	r.TracesValidated += 2 * n
	r.Notes = append(r.Notes, "AWS KMS plugins (v1, v2): a writer with regions {us-west-2 preferred, us-east-1} and a reader that has only us-east-1 / prefers us-east-1 / sees us-west-2 down decrypt each other's records")
}
