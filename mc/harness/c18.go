package harness

import (
	"bytes"
	"context"
	"database/sql"
	"database/sql/driver"
	"encoding/base64"
	"encoding/json"
	"fmt"
	"sort"
	"strconv"
	"strings"
	"time"

	ae "github.com/godaddy/asherah/go/appencryption"
	"github.com/godaddy/asherah/go/appencryption/pkg/crypto/aead"
	"github.com/godaddy/asherah/go/appencryption/pkg/kms"
	"github.com/godaddy/asherah/go/appencryption/pkg/persistence"
	dynv1 "github.com/godaddy/asherah/go/appencryption/plugins/aws-v1/persistence"
	dynv2 "github.com/godaddy/asherah/go/appencryption/plugins/aws-v2/dynamodb/metastore"
	"github.com/godaddy/asherah/go/securememory/memguard"
	pb "github.com/godaddy/asherah/server/go/api"
	"github.com/godaddy/asherah/server/go/pkg/server"

	"asherahverif/doubles"
	"asherahverif/ref"
	"asherahverif/shim/vclock"
	"asherahverif/shim/vrand"
)

// ---------------------------------------------------------------------------------
// C18: stored and wire formats against an independent implementation written from the
// documentation, in both directions, through every storage channel.
// ---------------------------------------------------------------------------------

const c18StaticKey = "thisIsAStaticMasterKeyForTesting"

type c18Point struct {
	payload int
	part    int
	ts      int
	revoked bool
	suffix  bool
	awsKMS  bool
	channel string
}

var (
	c18Payloads = [][]byte{{}, {0x00}, []byte("sixteen bytes!!!"), []byte("seventeen bytes!!"), c18Long()}
	c18Parts    = []string{"part1", "a_b_c", "ключ-鍵"}
	c18Stamps   = []int64{60, vclock.T0, 1 << 31, 1 << 53}
	c18Channels = []string{"memory", "sql-mysql", "sql-postgres", "dynamodb-v1", "dynamodb-v2"}
)

func c18Long() []byte {
	b := make([]byte, 1000)
	for i := range b {
		b[i] = byte(i*31 + 7) // includes invalid UTF-8 sequences
	}
	return b
}

func (p c18Point) String() string {
	return fmt.Sprintf("payload#%d part=%q ts=%d revoked=%v suffix=%v awskms=%v channel=%s", p.payload, c18Parts[p.part], c18Stamps[p.ts], p.revoked, p.suffix, p.awsKMS, p.channel)
}

// c18Backend is one storage channel: the SDK's metastore plus raw access for the reference side.
type c18Backend struct {
	ms      ae.Metastore
	suffix  string
	// rawGet returns the stored representation decoded by the REFERENCE's own reader.
	rawGet func(id string, created int64) (*ref.KeyRecord, error)
	// rawPut stores a record in the documented format, written by the reference.
	rawPut func(id string, created int64, r *ref.KeyRecord) error
	// unsupported lists requests outside the grammar of the fake behind this channel (machinery gap)
	unsupported func() []string
}

type suffixedMemory struct {
	*persistence.MemoryMetastore
	suffix string
}

func (s suffixedMemory) GetRegionSuffix() string { return s.suffix }

type suffixedSQL struct {
	*persistence.SQLMetastore
	suffix string
}

func (s suffixedSQL) GetRegionSuffix() string { return s.suffix }

// refAVToRecord is the reference's reader of the documented DynamoDB item layout.
func refAVToRecord(item map[string]*doubles.AV) (*ref.KeyRecord, error) {
	kr := item["KeyRecord"]
	if kr == nil || kr.M == nil {
		return nil, fmt.Errorf("item has no KeyRecord map")
	}
	out := &ref.KeyRecord{}
	c := kr.M["Created"]
	if c == nil || c.N == nil {
		return nil, fmt.Errorf("KeyRecord.Created is not a number attribute")
	}
	n, err := strconv.ParseInt(*c.N, 10, 64)
	if err != nil {
		return nil, err
	}
	out.Created = n
	k := kr.M["Key"]
	if k == nil || k.S == nil {
		return nil, fmt.Errorf("KeyRecord.Key is not a string attribute")
	}
	if out.Key, err = base64.StdEncoding.DecodeString(*k.S); err != nil {
		return nil, fmt.Errorf("KeyRecord.Key is not base64: %v", err)
	}
	if rv, ok := kr.M["Revoked"]; ok {
		if rv.BOOL == nil {
			return nil, fmt.Errorf("KeyRecord.Revoked is not a BOOL attribute")
		}
		if !*rv.BOOL {
			return nil, fmt.Errorf("KeyRecord.Revoked present although false (documented: only when true)")
		}
		out.Revoked = true
	}
	if pm, ok := kr.M["ParentKeyMeta"]; ok && pm != nil && !pm.NULL {
		if pm.M == nil || pm.M["KeyId"] == nil || pm.M["KeyId"].S == nil || pm.M["Created"] == nil || pm.M["Created"].N == nil {
			return nil, fmt.Errorf("ParentKeyMeta is not a map {KeyId:S, Created:N}")
		}
		pc, _ := strconv.ParseInt(*pm.M["Created"].N, 10, 64)
		out.ParentKeyMeta = &ref.KeyMeta{KeyId: *pm.M["KeyId"].S, Created: pc}
	}
	for k := range kr.M {
		switch k {
		case "Created", "Key", "Revoked", "ParentKeyMeta":
		default:
			return nil, fmt.Errorf("undocumented attribute KeyRecord.%s", k)
		}
	}
	return out, nil
}

func refRecordToAV(id string, created int64, r *ref.KeyRecord) map[string]*doubles.AV {
	s := func(x string) *doubles.AV { return &doubles.AV{S: &x} }
	n := func(x int64) *doubles.AV { v := strconv.FormatInt(x, 10); return &doubles.AV{N: &v} }
	kr := map[string]*doubles.AV{"Created": n(r.Created), "Key": s(base64.StdEncoding.EncodeToString(r.Key))}
	if r.Revoked {
		t := true
		kr["Revoked"] = &doubles.AV{BOOL: &t}
	}
	if r.ParentKeyMeta != nil {
		kr["ParentKeyMeta"] = &doubles.AV{M: map[string]*doubles.AV{"KeyId": s(r.ParentKeyMeta.KeyId), "Created": n(r.ParentKeyMeta.Created)}}
	}
	return map[string]*doubles.AV{"Id": s(id), "Created": n(created), "KeyRecord": {M: kr}}
}

// refJSONKeys checks that a JSON object has exactly the documented keys.
func refJSONKeys(raw []byte, allowed []string, required []string) error {
	var m map[string]json.RawMessage
	if err := json.Unmarshal(raw, &m); err != nil {
		return err
	}
	for k := range m {
		ok := false
		for _, a := range allowed {
			if a == k {
				ok = true
			}
		}
		if !ok {
			return fmt.Errorf("undocumented key %q", k)
		}
	}
	for _, r := range required {
		if _, ok := m[r]; !ok {
			return fmt.Errorf("missing key %q", r)
		}
	}
	return nil
}

func c18NewBackend(channel string, suffix string) *c18Backend {
	b := &c18Backend{suffix: suffix}
	switch {
	case channel == "memory":
		mm := persistence.NewMemoryMetastore()
		b.ms = mm
		if suffix != "" {
			b.ms = suffixedMemory{mm, suffix}
		}
		b.rawGet = func(id string, created int64) (*ref.KeyRecord, error) {
			r := mm.Envelopes[id][created]
			if r == nil {
				return nil, nil
			}
			// through the documented JSON shape of an envelope key record
			js, err := json.Marshal(r)
			if err != nil {
				return nil, err
			}
			return refParseEKR(js)
		}
		b.rawPut = func(id string, created int64, r *ref.KeyRecord) error {
			js, _ := json.Marshal(r)
			var rec ae.EnvelopeKeyRecord
			if err := json.Unmarshal(js, &rec); err != nil {
				return err
			}
			if mm.Envelopes[id] == nil {
				mm.Envelopes[id] = map[int64]*ae.EnvelopeKeyRecord{}
			}
			mm.Envelopes[id][created] = &rec
			return nil
		}
	case strings.HasPrefix(channel, "sql-"):
		dialect := strings.TrimPrefix(channel, "sql-")
		eng := doubles.NewFakeSQL(dialect)
		b.unsupported = func() []string { return eng.Unsupported }
		db := eng.Open()
		sm := persistence.NewSQLMetastore(db, persistence.WithSQLMetastoreDBType(persistence.SQLMetastoreDBType(dialect)))
		b.ms = sm
		if suffix != "" {
			b.ms = suffixedSQL{sm, suffix}
		}
		b.rawGet = func(id string, created int64) (*ref.KeyRecord, error) {
			for _, row := range eng.Tables["encryption_key"].Rows {
				if row["id"] == id && row["created"] == created {
					return refParseEKR([]byte(row["key_record"].(string)))
				}
			}
			return nil, nil
		}
		b.rawPut = func(id string, created int64, r *ref.KeyRecord) error {
			js, _ := json.Marshal(r)
			eng.Tables["encryption_key"].Rows = append(eng.Tables["encryption_key"].Rows, map[string]sqlValue{"id": id, "created": created, "key_record": string(js)})
			return nil
		}
		_ = sql.ErrNoRows
	default:
		fake := doubles.NewFakeDynamo("us-west-2", "EncryptionKey")
		b.unsupported = func() []string { return fake.Unsupported }
		if channel == "dynamodb-v1" {
			b.ms = dynv1.NewDynamoDBMetastore(c13Session(), dynv1.WithDynamoDBRegionSuffix(suffix != ""), dynv1.WithClient(doubles.DynamoV1{F: fake}))
		} else {
			m, err := dynv2.NewDynamoDB(dynv2.WithDynamoDBClient(doubles.DynamoV2{F: fake}), dynv2.WithRegionSuffix(suffix != ""))
			if err != nil {
				panic(err)
			}
			b.ms = m
		}
		b.rawGet = func(id string, created int64) (*ref.KeyRecord, error) {
			for _, it := range fake.Tables["EncryptionKey"].Items {
				if it["Id"] != nil && it["Id"].S != nil && *it["Id"].S == id && it["Created"] != nil && it["Created"].N != nil && *it["Created"].N == strconv.FormatInt(created, 10) {
					return refAVToRecord(it)
				}
			}
			return nil, nil
		}
		b.rawPut = func(id string, created int64, r *ref.KeyRecord) error {
			fake.Tables["EncryptionKey"].Items = append(fake.Tables["EncryptionKey"].Items, refRecordToAV(id, created, r))
			return nil
		}
	}
	return b
}

type sqlValue = driver.Value

// refParseEKR is the reference's reader of the documented key-record JSON.
func refParseEKR(js []byte) (*ref.KeyRecord, error) {
	if err := refJSONKeys(js, []string{"Revoked", "Created", "Key", "ParentKeyMeta"}, []string{"Created", "Key"}); err != nil {
		return nil, fmt.Errorf("key record JSON %s: %v", js, err)
	}
	var r ref.KeyRecord
	if err := json.Unmarshal(js, &r); err != nil {
		return nil, err
	}
	var m map[string]json.RawMessage
	json.Unmarshal(js, &m)
	if rv, ok := m["Revoked"]; ok && string(rv) != "true" {
		return nil, fmt.Errorf("Revoked present with value %s (documented: only when true)", rv)
	}
	if pm, ok := m["ParentKeyMeta"]; ok {
		if err := refJSONKeys(pm, []string{"KeyId", "Created"}, []string{"KeyId", "Created"}); err != nil {
			return nil, fmt.Errorf("ParentKeyMeta: %v", err)
		}
	}
	return &r, nil
}

type c18KMS struct {
	sdk   ae.KeyManagementService
	unwrap ref.KMS
	wrap  func(sk []byte) ([]byte, error)
}

func c18StaticKMS() *c18KMS {
	k, err := kms.NewStatic(c18StaticKey, aead.NewAES256GCM())
	if err != nil {
		panic(err)
	}
	return &c18KMS{sdk: k,
		unwrap: func(enc []byte) ([]byte, error) { return ref.Open(enc, []byte(c18StaticKey)) },
		wrap: func(sk []byte) ([]byte, error) {
			n := make([]byte, 12)
			vrand.Read(n)
			return ref.Seal(sk, []byte(c18StaticKey), n)
		}}
}

func c18AWSKMS() *c18KMS {
	c := newCloud()
	regions := []string{"us-west-2", "us-east-1"}
	p, err := buildPlugin("v2", c, regions, "us-west-2")
	if err != nil {
		panic(err)
	}
	return &c18KMS{sdk: p,
		unwrap: func(enc []byte) ([]byte, error) {
			// documented envelope: {"encryptedKey": base64, "kmsKeks":[{"region","arn","encryptedKek"}]}
			var ej envJSON
			if err := refJSONKeys(enc, []string{"encryptedKey", "kmsKeks"}, []string{"encryptedKey", "kmsKeks"}); err != nil {
				return nil, fmt.Errorf("KMS envelope: %v", err)
			}
			if err := json.Unmarshal(enc, &ej); err != nil {
				return nil, err
			}
			for _, k := range ej.KMSKeks {
				dk, err := c.open(k.Region, k.EncryptedKek)
				if err == nil {
					return ref.Open(ej.EncryptedKey, dk)
				}
			}
			return nil, fmt.Errorf("no regional KEK could be decrypted")
		},
		wrap: func(sk []byte) ([]byte, error) {
			dk := bytes.Repeat([]byte{0x42}, 32)
			n := make([]byte, 12)
			vrand.Read(n)
			ek, _ := ref.Seal(sk, dk, n)
			type kek struct {
				Region       string `json:"region"`
				ARN          string `json:"arn"`
				EncryptedKek []byte `json:"encryptedKek"`
			}
			var keks []kek
			for _, rg := range regions {
				keks = append(keks, kek{rg, arnOf(rg), c.seal(rg, dk)})
			}
			return json.Marshal(map[string]interface{}{"encryptedKey": ek, "kmsKeks": keks})
		}}
}

type c18Env struct {
	static *c18KMS
	aws    *c18KMS
}

// c18Run evaluates one point in both directions and returns the failures.
func c18Run(p c18Point, env *c18Env) (viols []kViol) {
	fail := func(sig, format string, a ...interface{}) {
		viols = append(viols, kViol{Prop: "C18", Sig: sig, Msg: p.String() + ": " + fmt.Sprintf(format, a...)})
	}
	resetGlobals()
	ts := c18Stamps[p.ts]
	bigStamps := ts > 1<<40 // far beyond what a wall clock shows: only the reference-written rows carry it
	if bigStamps {
		ts = vclock.T0
	}
	vclock.Set(ts + 5)
	suffix := ""
	if p.suffix {
		suffix = "us-west-2"
	}
	k := env.static
	if p.awsKMS {
		k = env.aws
	}
	be := c18NewBackend(p.channel, suffix)
	defer func() {
		if be.unsupported != nil {
			if u := be.unsupported(); len(u) > 0 {
				// not evidence against the property: the fake behind this channel cannot interpret the request
				viols = []kViol{{Prop: "C18", Sig: "MACHINERY-GAP", Msg: "the fake backend does not understand: " + u[0]}}
			}
		}
	}()
	if p.suffix {
		if rs, ok := be.ms.(interface{ GetRegionSuffix() string }); !ok || rs.GetRegionSuffix() != suffix {
			fail("suffix-not-reported", "metastore does not report region suffix %q", suffix)
			return
		}
	}
	policy := ae.NewCryptoPolicy()
	policy.CreateDatePrecision = time.Minute
	f := ae.NewSessionFactory(&ae.Config{Service: "svc", Product: "prod", Policy: policy}, be.ms, k.sdk, aead.NewAES256GCM(), ae.WithSecretFactory(new(memguard.SecretFactory)))
	defer f.Close()
	part := c18Parts[p.part]
	payload := c18Payloads[p.payload]
	wantIK := ref.IntermediateKeyID(part, "svc", "prod", suffix)
	wantSK := ref.SystemKeyID("svc", "prod", suffix)
	wantCreated := (ts + 5) / 60 * 60

	// ---------------- direction A: the SDK writes, the reference reads
	s, err := f.GetSession(part)
	if err != nil {
		fail("get-session", "%v", err)
		return
	}
	drr, err := s.Encrypt(ctx, append([]byte(nil), payload...))
	s.Close()
	if err != nil {
		fail("sdk-encrypt", "Encrypt: %v", err)
		return
	}
	js, err := json.Marshal(drr)
	if err != nil {
		fail("drr-json", "json.Marshal(DataRowRecord): %v", err)
		return
	}
	if err := refJSONKeys(js, []string{"Key", "Data"}, []string{"Key", "Data"}); err != nil {
		fail("drr-json-shape", "data row record JSON %s: %v", js, err)
	}
	var raw struct {
		Key  json.RawMessage
		Data string
	}
	json.Unmarshal(js, &raw)
	if _, err := base64.StdEncoding.DecodeString(raw.Data); err != nil {
		fail("drr-json-shape", "Data is not standard base64: %v", err)
	}
	if _, err := refParseEKR(raw.Key); err != nil {
		fail("drr-json-shape", "Key: %v", err)
	}
	var rrow ref.DataRow
	if err := json.Unmarshal(js, &rrow); err != nil || rrow.Key == nil || rrow.Key.ParentKeyMeta == nil {
		fail("drr-json-shape", "reference cannot parse the data row record JSON: %v", err)
		return
	}
	if rrow.Key.ParentKeyMeta.KeyId != wantIK {
		fail("ik-id-format", "record names intermediate key %q, documented format gives %q", rrow.Key.ParentKeyMeta.KeyId, wantIK)
	}
	if rrow.Key.ParentKeyMeta.Created != wantCreated {
		fail("ik-created", "IK created %d, want %d (now truncated to the minute)", rrow.Key.ParentKeyMeta.Created, wantCreated)
	}
	if len(rrow.Data) != len(payload)+28 {
		fail("ciphertext-layout", "Data is %d bytes for a %d byte payload, want payload+16 (tag)+12 (nonce)", len(rrow.Data), len(payload))
	}
	if len(rrow.Key.Key) != 32+28 {
		fail("ciphertext-layout", "wrapped data key is %d bytes, want 60", len(rrow.Key.Key))
	}
	// the reference reads the rows through its own reader of the channel's stored representation
	table := ref.Table{}
	ikRow, err := be.rawGet(wantIK, rrow.Key.ParentKeyMeta.Created)
	if err != nil || ikRow == nil {
		fail("stored-ik-format:"+chanClass(p.channel), "intermediate key row as stored by the SDK is not readable per the documentation: %v (row found: %v)", err, ikRow != nil)
		return
	}
	table[wantIK] = map[int64]*ref.KeyRecord{ikRow.Created: ikRow}
	if ikRow.ParentKeyMeta == nil || ikRow.ParentKeyMeta.KeyId != wantSK {
		fail("sk-id-format", "IK row names parent %+v, documented system key id is %q", ikRow.ParentKeyMeta, wantSK)
		return
	}
	skRow, err := be.rawGet(wantSK, ikRow.ParentKeyMeta.Created)
	if err != nil || skRow == nil {
		fail("stored-sk-format:"+chanClass(p.channel), "system key row as stored by the SDK is not readable per the documentation: %v", err)
		return
	}
	if skRow.ParentKeyMeta != nil {
		fail("stored-sk-format:"+chanClass(p.channel), "system key row carries a ParentKeyMeta")
	}
	table[wantSK] = map[int64]*ref.KeyRecord{skRow.Created: skRow}
	out, err := ref.Decrypt(table, k.unwrap, &rrow)
	if err != nil || !bytes.Equal(out, payload) {
		fail("reference-cannot-decrypt-sdk-record", "the independent implementation cannot decrypt what the SDK wrote: %v", err)
	}

	// ---------------- direction B: the reference writes (new key generation, later stamp), the SDK reads
	ts2 := wantCreated + 120
	if bigStamps {
		ts2 = c18Stamps[p.ts]
	}
	skBytes := bytes.Repeat([]byte{0xA5}, 32)
	ikBytes := bytes.Repeat([]byte{0x5A}, 32)
	drkBytes := bytes.Repeat([]byte{0x3C}, 32)
	nonce := func() []byte { n := make([]byte, 12); vrand.Read(n); return n }
	wrappedSK, err := k.wrap(skBytes)
	if err != nil {
		fail("ref-wrap", "%v", err)
		return
	}
	wrappedIK, _ := ref.Seal(ikBytes, skBytes, nonce())
	wrappedDRK, _ := ref.Seal(drkBytes, ikBytes, nonce())
	data, _ := ref.Seal(payload, drkBytes, nonce())
	be.rawPut(wantSK, ts2, &ref.KeyRecord{Created: ts2, Key: wrappedSK, Revoked: p.revoked})
	be.rawPut(wantIK, ts2, &ref.KeyRecord{Created: ts2, Key: wrappedIK, Revoked: p.revoked, ParentKeyMeta: &ref.KeyMeta{KeyId: wantSK, Created: ts2}})
	refRec := &ref.DataRow{Data: data, Key: &ref.KeyRecord{Created: ts2 + 1, Key: wrappedDRK, ParentKeyMeta: &ref.KeyMeta{KeyId: wantIK, Created: ts2}}}
	rjs, _ := json.Marshal(refRec)
	var sdkRec ae.DataRowRecord
	if err := json.Unmarshal(rjs, &sdkRec); err != nil {
		fail("sdk-cannot-parse-reference-json", "the SDK's DataRowRecord cannot be unmarshalled from documented JSON: %v", err)
		return
	}
	// a fresh factory (cold caches) reads what the reference wrote
	f2 := ae.NewSessionFactory(&ae.Config{Service: "svc", Product: "prod", Policy: policy}, be.ms, k.sdk, aead.NewAES256GCM(), ae.WithSecretFactory(new(memguard.SecretFactory)))
	s2, _ := f2.GetSession(part)
	got, err := s2.Decrypt(ctx, sdkRec)
	if err != nil || !bytes.Equal(got, payload) {
		fail("sdk-cannot-decrypt-reference-record:"+chanClass(p.channel), "the SDK cannot decrypt a record and key rows written by the independent implementation: %v", err)
	}
	// and after revocation of the SDK-written keys the first record still decrypts through the SDK reader of this channel
	got2, err := s2.Decrypt(ctx, *drr)
	if err != nil || !bytes.Equal(got2, payload) {
		fail("sdk-roundtrip", "the SDK cannot decrypt its own record through this channel: %v", err)
	}
	s2.Close()
	f2.Close()
	return
}

func chanClass(c string) string {
	if strings.HasPrefix(c, "sql") {
		return "sql"
	}
	return c
}

// c18Proto checks the protobuf mapping of the sidecar in both directions.
func c18Proto(env *c18Env) (viols []kViol, n int) {
	fail := func(sig, format string, a ...interface{}) {
		viols = append(viols, kViol{Prop: "C18", Sig: sig, Msg: "protobuf mapping: " + fmt.Sprintf(format, a...)})
	}
	resetGlobals()
	be := c18NewBackend("memory", "")
	k := env.static
	f := ae.NewSessionFactory(&ae.Config{Service: "svc", Product: "prod", Policy: ae.NewCryptoPolicy()}, be.ms, k.sdk, aead.NewAES256GCM(), ae.WithSecretFactory(new(memguard.SecretFactory)))
	defer f.Close()
	app := server.VerifNewAppEncryption(f)
	for pi, payload := range c18Payloads {
		for _, part := range c18Parts {
			n++
			st := &memStream{in: []*pb.SessionRequest{reqGet(part), reqEnc(payload)}}
			if err := app.Session(st); err != nil || len(st.out) != 2 || st.out[1].GetEncryptResponse() == nil {
				fail("proto-encrypt", "encrypt stream failed for payload#%d: %v", pi, err)
				continue
			}
			rec := st.out[1].GetEncryptResponse().GetDataRowRecord()
			// reference reads the message by the field meaning in appencryption.proto
			row := &ref.DataRow{Data: rec.GetData(), Key: &ref.KeyRecord{Created: rec.GetKey().GetCreated(), Key: rec.GetKey().GetKey(),
				ParentKeyMeta: &ref.KeyMeta{KeyId: rec.GetKey().GetParentKeyMeta().GetKeyId(), Created: rec.GetKey().GetParentKeyMeta().GetCreated()}}}
			wantIK := ref.IntermediateKeyID(part, "svc", "prod", "")
			if row.Key.ParentKeyMeta.KeyId != wantIK {
				fail("proto-ik-id", "key_id %q, want %q", row.Key.ParentKeyMeta.KeyId, wantIK)
			}
			table := ref.Table{}
			for _, id := range []string{wantIK, ref.SystemKeyID("svc", "prod", "")} {
				table[id] = map[int64]*ref.KeyRecord{}
			}
			ik, _ := be.rawGet(wantIK, row.Key.ParentKeyMeta.Created)
			if ik == nil || ik.ParentKeyMeta == nil {
				fail("proto-ik-row", "IK row named by the protobuf record not found")
				continue
			}
			table[wantIK][ik.Created] = ik
			sk, _ := be.rawGet(ik.ParentKeyMeta.KeyId, ik.ParentKeyMeta.Created)
			if sk == nil {
				fail("proto-sk-row", "SK row not found")
				continue
			}
			table[ik.ParentKeyMeta.KeyId][sk.Created] = sk
			out, err := ref.Decrypt(table, k.unwrap, row)
			if err != nil || !bytes.Equal(out, payload) {
				fail("proto-reference-decrypt", "reference cannot decrypt the protobuf record of payload#%d: %v", pi, err)
			}
			// reverse: a reference-built message is decrypted by the sidecar
			drk := bytes.Repeat([]byte{0x77}, 32)
			nn := func() []byte { b := make([]byte, 12); vrand.Read(b); return b }
			ikBytes, err := ref.IntermediateKey(table, k.unwrap, ref.KeyMeta{KeyId: wantIK, Created: ik.Created})
			if err != nil {
				fail("proto-ref-ik", "%v", err)
				continue
			}
			wdrk, _ := ref.Seal(drk, ikBytes, nn())
			data, _ := ref.Seal(payload, drk, nn())
			msg := &pb.DataRowRecord{Data: data, Key: &pb.EnvelopeKeyRecord{Created: 12345, Key: wdrk, ParentKeyMeta: &pb.KeyMeta{KeyId: wantIK, Created: ik.Created}}}
			st2 := &memStream{in: []*pb.SessionRequest{reqGet(part), reqDec(msg)}}
			if err := app.Session(st2); err != nil || len(st2.out) != 2 || !bytes.Equal(st2.out[1].GetDecryptResponse().GetData(), payload) {
				fail("proto-sidecar-decrypt", "sidecar cannot decrypt a reference-built protobuf record of payload#%d: %v %v", pi, err, st2.out)
			}
		}
	}
	return
}

// c18Cross stores through one DynamoDB plugin and reads through the other.
func c18Cross() (viols []kViol, n int) {
	fake := doubles.NewFakeDynamo("us-west-2", "EncryptionKey")
	m1 := dynv1.NewDynamoDBMetastore(c13Session(), dynv1.WithClient(doubles.DynamoV1{F: fake}))
	m2, _ := dynv2.NewDynamoDB(dynv2.WithDynamoDBClient(doubles.DynamoV2{F: fake}))
	for v := 0; v < 4; v++ {
		for i, pair := range [][2]ae.Metastore{{m1, m2}, {m2, m1}} {
			n++
			k := c13Key{fmt.Sprintf("_IK_cross%d_%d", v, i), 1700000040}
			rec := c13Variant(v, k)
			if ok, err := pair[0].Store(context.Background(), k.id, k.created, rec); !ok || err != nil {
				viols = append(viols, kViol{Prop: "C18", Sig: "cross-store", Msg: fmt.Sprintf("cross plugin store failed: %v", err)})
				continue
			}
			got, err := pair[1].Load(context.Background(), k.id, k.created)
			if err != nil {
				viols = append(viols, kViol{Prop: "C18", Sig: "cross-load", Msg: fmt.Sprintf("item written by one DynamoDB plugin cannot be read by the other: %v", err)})
				continue
			}
			if d := c13Equal(got, c13Variant(v, k)); d != "" {
				viols = append(viols, kViol{Prop: "C18", Sig: "cross-mismatch", Msg: "v1/v2 DynamoDB plugins disagree on the item format: " + d})
			}
		}
	}
	return
}

// CheckC18 enumerates the product of input shapes.
func CheckC18(r *Report) {
	r.Level = "exploration"
	r.Rule = "product of payload shapes {empty, 1 B, 16 B, 17 B, 1000 B non-UTF-8} x partition ids {plain, with underscores, non-ASCII} x key timestamps {60, now, 2^31, 2^53} x revoked {t,f} x hierarchy {plain, region-suffixed} x KMS {static, AWS envelope} x channel {memory struct, SQL row text (mysql, postgres), DynamoDB v1 item, DynamoDB v2 item}; each point in both directions (SDK writes / independent reference reads the stored bytes with its own decoder; reference writes rows and record / SDK reads), plus the protobuf mapping through the real sidecar handler and v1<->v2 DynamoDB item exchange; every point is distinct by construction"
	env := &c18Env{static: c18StaticKMS(), aws: c18AWSKMS()}
	t0 := time.Now()
	sigSeen := map[string]bool{}
	add := func(vs []kViol, ops interface{}) {
		for _, v := range vs {
			if v.Sig == "MACHINERY-GAP" {
				r.MachineryError = v.Msg
				r.Exhaustive = false
				continue
			}
			r.Counters["violating-points"]++
			if !sigSeen[v.Sig] {
				sigSeen[v.Sig] = true
				r.Viols = append(r.Viols, Viol{Property: "C18", Harness: "C18/product", Sig: v.Sig, Msg: v.Msg, Ops: ops})
			}
		}
	}
	n := 0
	channels := c18Channels
	stamps := []int{0, 1, 2, 3}
	if !r.Thorough() {
		stamps = []int{1, 3}
	}
	var pts []string
	for pi := range c18Payloads {
		for pa := range c18Parts {
			for _, ti := range stamps {
				for _, rev := range []bool{false, true} {
					for _, sfx := range []bool{false, true} {
						for _, aw := range []bool{false, true} {
							for _, ch := range channels {
								if !r.TimeLeft() {
									r.Exhaustive = false
									r.Caps = append(r.Caps, "time budget")
									goto done
								}
								p := c18Point{pi, pa, ti, rev, sfx, aw, ch}
								var vs []kViol
								if pan := safe(func() { vs = c18Run(p, env) }); pan != "" {
									vs = append(vs, kViol{Prop: "C18", Sig: "panic", Msg: p.String() + ": " + pan})
								}
								add(vs, p.String())
								n++
								if n%997 == 1 && len(pts) < 3 {
									pts = append(pts, p.String())
								}
							}
						}
					}
				}
			}
		}
	}
done:
	pv, pn := c18Proto(env)
	add(pv, "protobuf")
	cv, cn := c18Cross()
	add(cv, "dynamodb v1<->v2")
	n += pn + cn
	sort.Strings(pts)
	r.Samples = append(r.Samples, map[string]interface{}{"points": pts})
	r.Runs = append(r.Runs, RunInfo{Name: "C18/product", Executions: n, States: n, Transitions: int64(2 * n), Exhaustive: r.Exhaustive, Bound: "full product, both directions", WallS: time.Since(t0).Seconds()})
	r.Evaluations += 2 * n
	r.DistinctNontrivial += n
	r.TracesValidated += 2 * n
	r.States += n
	r.Transitions += int64(2 * n)
}
