package harness

import (
	"asherahverif/shim/vclock"

	ae "github.com/godaddy/asherah/go/appencryption"
	"strconv"

	"bufio"
	"bytes"
	"encoding/json"
	"fmt"
	"io"
	"os"
	"os/exec"
	"runtime"
	"sort"
	"strings"
	"sync"
	"time"

	"asherahverif/doubles"
	"asherahverif/ref"
	"asherahverif/shim/vsched"
)

// KConfig is one configuration of the K state space.
type KConfig struct {
	Name   string
	Spec   PolicySpec
	Alpha  KAlphabet
	Depth  int
	Probes bool // C20: run the repetition probes from every expanded state
}

// kExpand is the worker's answer for one history: the successors by every enabled operation.
type kExpand struct {
	Hist  []string      `json:"h"`
	Succ  []kSucc       `json:"s"`
	Error string        `json:"e,omitempty"`
	Probe *kProbeResult `json:"p,omitempty"`
}

type kSucc struct {
	Op       string         `json:"op"`
	Key      string         `json:"k"` // hex of the state hash
	Viols    []kViol        `json:"v,omitempty"`
	Counters map[string]int `json:"c,omitempty"`
	Dump     string         `json:"d,omitempty"`
}

// kRun replays hist (+ optional probe ops) on fresh objects and returns the world after it,
// the judged last step and the violations. Everything runs under the controlled scheduler in
// its default schedule with run-to-quiescence after every operation.
func kRun(cfg *KConfig, hist []string, judgeLast bool, wantDump bool) (succ kSucc, enabled []string, fatal string) {
	resetGlobals()
	var w *kWorld
	j := &kJudge{counters: map[string]int{}}
	x := vsched.Run(vsched.RunOptions{MaxSteps: 2000000}, func() {
		vsched.BeginQuiet()
		w = newKWorld(cfg.Spec)
		vsched.Quiesce()
		var last *kStep
		for i, op := range hist {
			st := w.apply(op)
			if i == len(hist)-1 {
				last = st
			}
		}
		if judgeLast && last != nil {
			w.judgeStep(last, j)
		}
		dump, reach := w.stateDump()
		if judgeLast {
			w.judgeState(reach, j)
		}
		k := hashKey(dump)
		succ.Key = fmt.Sprintf("%x", k[:])
		if wantDump {
			succ.Dump = dump
		}
		enabled = w.enabled(cfg.Alpha)
	})
	if len(hist) > 0 {
		succ.Op = hist[len(hist)-1]
	}
	switch {
	case x.PanicVal != nil:
		j.fail("*", "harness-panic", "panic outside an operation: %v\n%s", x.PanicVal, x.PanicStack)
	case x.Deadlock != "":
		j.fail("*", "deadlock", "deadlock after %v: %s", hist, x.Deadlock)
	case x.Horizon:
		j.fail("*", "horizon", "step cap reached replaying %v", hist)
	}
	succ.Viols = j.viols
	succ.Counters = j.counters
	return
}

// kExpandOne computes all successors of one history.
func kExpandOne(cfg *KConfig, hist []string) kExpand {
	out := kExpand{Hist: hist}
	if cfg.Probes {
		p := kProbe(cfg, hist)
		out.Probe = &p
	}
	_, enabled, _ := kRun(cfg, hist, false, false)
	for _, op := range enabled {
		h2 := append(append([]string{}, hist...), op)
		s, _, _ := kRun(cfg, h2, true, false)
		out.Succ = append(out.Succ, s)
	}
	return out
}

// KWorkerMain is the body of `vharness kworker`: histories in (JSON lines), expansions out.
func KWorkerMain(cfgName string, in io.Reader, out io.Writer) {
	cfg := kConfigByName(cfgName)
	if cfg == nil {
		fmt.Fprintln(os.Stderr, "unknown K configuration", cfgName)
		os.Exit(2)
	}
	rd := bufio.NewReaderSize(in, 1<<20)
	wr := bufio.NewWriter(out)
	enc := json.NewEncoder(wr)
	for {
		line, err := rd.ReadBytes('\n')
		if len(line) > 0 {
			var hist []string
			if e := json.Unmarshal(line, &hist); e != nil {
				fmt.Fprintln(os.Stderr, "kworker: bad input", e)
				os.Exit(2)
			}
			enc.Encode(kExpandOne(cfg, hist))
			wr.Flush()
		}
		if err != nil {
			return
		}
	}
}

// KResult is the outcome of one BFS.
type KResult struct {
	Cfg         *KConfig
	States      int
	Transitions int
	DepthDone   int
	Exhaustive  bool
	Cap         string
	Viols       []Viol
	Counters    map[string]int
	Samples     [][]string
	PerLevel    []int
	Wall        float64
}

// kBFS explores the configuration breadth-first with a pool of worker processes.
func kBFS(cfg *KConfig, prop string, workers int, deadline time.Time) *KResult {
	t0 := time.Now()
	res := &KResult{Cfg: cfg, Counters: map[string]int{}, Exhaustive: true}
	self, _ := os.Executable()
	type wproc struct {
		cmd *exec.Cmd
		in  io.WriteCloser
		out *bufio.Reader
	}
	if workers < 1 {
		workers = 1
	}
	var procs []*wproc
	for i := 0; i < workers; i++ {
		wname := cfg.Name
		if cfg.Probes {
			wname += "+probes"
		}
		cmd := exec.Command(self, "kworker", wname)
		cmd.Env = append(os.Environ(), "GOMAXPROCS=2")
		cmd.Stderr = os.Stderr
		in, _ := cmd.StdinPipe()
		outp, _ := cmd.StdoutPipe()
		if err := cmd.Start(); err != nil {
			res.Cap = "cannot start worker: " + err.Error()
			res.Exhaustive = false
			return res
		}
		procs = append(procs, &wproc{cmd: cmd, in: in, out: bufio.NewReaderSize(outp, 1<<20)})
	}
	defer func() {
		for _, p := range procs {
			p.in.Close()
			p.cmd.Wait()
		}
	}()
	root, _, _ := kRun(cfg, nil, false, false)
	seen := map[string]bool{root.Key: true}
	frontier := [][]string{{}}
	sigSeen := map[string]bool{}
	res.States = 1
	for depth := 0; depth < cfg.Depth && len(frontier) > 0; depth++ {
		if !deadline.IsZero() && time.Now().After(deadline) {
			res.Cap = fmt.Sprintf("deadline before depth %d", depth+1)
			res.Exhaustive = false
			break
		}
		// distribute the frontier
		results := make([]kExpand, len(frontier))
		var mu sync.Mutex
		next := 0
		var wg sync.WaitGroup
		timedOut := false
		for _, p := range procs {
			wg.Add(1)
			go func(p *wproc) {
				defer wg.Done()
				encd := json.NewEncoder(p.in)
				for {
					mu.Lock()
					if next >= len(frontier) || timedOut {
						mu.Unlock()
						return
					}
					if !deadline.IsZero() && next%64 == 0 && time.Now().After(deadline) {
						timedOut = true
						mu.Unlock()
						return
					}
					i := next
					next++
					mu.Unlock()
					encd.Encode(frontier[i])
					line, err := p.out.ReadBytes('\n')
					if err != nil {
						results[i] = kExpand{Hist: frontier[i], Error: "worker died: " + err.Error()}
						return
					}
					var ex kExpand
					if e := json.Unmarshal(line, &ex); e != nil {
						ex = kExpand{Hist: frontier[i], Error: "bad worker output: " + e.Error()}
					}
					results[i] = ex
				}
			}(p)
		}
		wg.Wait()
		var nextFrontier [][]string
		done := 0
		for i, ex := range results {
			if ex.Hist == nil && ex.Error == "" {
				continue // not expanded (deadline)
			}
			done++
			if ex.Error != "" {
				res.Cap = ex.Error
				res.Exhaustive = false
				continue
			}
			if ex.Probe != nil {
				for k, v := range ex.Probe.Counters {
					res.Counters[k] += v
				}
				for _, v := range ex.Probe.Viols {
					if v.Prop != prop {
						continue
					}
					sig := v.Sig + "@" + cfg.Name
					res.Counters["violating-probes"]++
					if !sigSeen[sig] {
						sigSeen[sig] = true
						res.Viols = append(res.Viols, Viol{Property: prop, Harness: "K/" + cfg.Name, Sig: sig, Msg: v.Msg, Ops: frontier[i]})
					}
				}
			}
			for _, s := range ex.Succ {
				res.Transitions++
				for k, v := range s.Counters {
					res.Counters[k] += v
				}
				h2 := append(append([]string{}, frontier[i]...), s.Op)
				for _, v := range s.Viols {
					if v.Prop != prop && v.Prop != "*" {
						continue
					}
					sig := v.Sig + "@" + cfg.Name
					if sigSeen[sig] {
						res.Counters["violating-transitions"]++
						continue
					}
					sigSeen[sig] = true
					res.Counters["violating-transitions"]++
					res.Viols = append(res.Viols, Viol{Property: prop, Harness: "K/" + cfg.Name, Sig: sig, Msg: v.Msg, Ops: h2})
				}
				if !seen[s.Key] {
					seen[s.Key] = true
					res.States++
					nextFrontier = append(nextFrontier, h2)
					if len(res.Samples) < 3 && len(h2) == cfg.Depth {
						res.Samples = append(res.Samples, h2)
					}
				}
			}
		}
		if timedOut || done < len(frontier) {
			res.Cap = fmt.Sprintf("deadline at depth %d (%d of %d states of that level expanded)", depth+1, done, len(frontier))
			res.Exhaustive = false
			res.PerLevel = append(res.PerLevel, len(nextFrontier))
			break
		}
		res.DepthDone = depth + 1
		res.PerLevel = append(res.PerLevel, len(nextFrontier))
		frontier = nextFrontier
	}
	if len(res.Samples) == 0 && len(frontier) > 0 {
		res.Samples = append(res.Samples, frontier[len(frontier)-1])
	}
	res.Wall = time.Since(t0).Seconds()
	return res
}

func numWorkers() int {
	n := runtime.NumCPU() - 2
	if n < 1 {
		n = 1
	}
	if n > 14 {
		n = 14
	}
	return n
}

// ------------------------------------------------------------------ configurations

var tickAlphabet = []int{P + 1, R + 1, R + P + 1, 2*R + 1, E - P - 1, E + 1}

func kConfigs() []*KConfig {
	quickA := KAlphabet{Ticks: tickAlphabet}
	fullA := KAlphabet{Ticks: tickAlphabet, Full: true}
	cs := []*KConfig{
		{Name: "K1-default", Spec: SpecDefault, Alpha: quickA},
		{Name: "K2-nocache", Spec: SpecNoCache, Alpha: quickA},
		{Name: "K3a-shared-lru-1", Spec: SpecShared("lru", 1), Alpha: quickA},
		{Name: "K3b-shared-lfu-1", Spec: SpecShared("lfu", 1), Alpha: quickA},
		{Name: "K3c-shared-slru-1", Spec: SpecShared("slru", 1), Alpha: quickA},
		{Name: "K3d-shared-tinylfu-1", Spec: SpecShared("tinylfu", 1), Alpha: quickA},
		{Name: "K4-sessions-slru-1", Spec: SpecSessions("slru", 1), Alpha: quickA},
		{Name: "K5a-sk-only", Spec: SpecSKOnly, Alpha: quickA},
		{Name: "K5b-ik-only", Spec: SpecIKOnly, Alpha: quickA},
		{Name: "K6-shared-lru-2", Spec: SpecShared("lru", 2), Alpha: quickA},
		// different capacities for the two key caches: the shared IK cache holds both partitions, the SK cache one key
		{Name: "K8-shared-ik2-sk1", Spec: PolicySpec{Name: "shared-ik-lru-2-sk-lru-1", CacheSK: true, CacheIK: true, SharedIK: true, IKPolicy: "lru", IKSize: 2, SKPolicy: "lru", SKSize: 1}, Alpha: quickA},
		{Name: "K7-narrow-deep", Spec: SpecDefault, Alpha: KAlphabet{Ticks: []int{R + 1, 2*R + 1, E - P - 1}, Narrow: true}},
		{Name: "K7s-narrow-deep-shared", Spec: SpecShared("lru", 2), Alpha: KAlphabet{Ticks: []int{R + 1, 2*R + 1, E - P - 1}, Narrow: true}},
	}
	for _, c := range append([]*KConfig{}, cs...) {
		f := *c
		f.Name = c.Name + "-full"
		f.Alpha = fullA
		cs = append(cs, &f)
	}
	return cs
}

func kConfigByName(n string) *KConfig {
	probes := strings.HasSuffix(n, "+probes")
	n = strings.TrimSuffix(n, "+probes")
	name, depth, _ := strings.Cut(n, "@")
	for _, c := range kConfigs() {
		if c.Name == name {
			cc := *c
			if depth != "" {
				cc.Depth = atoi(depth)
			}
			cc.Probes = probes
			return &cc
		}
	}
	return nil
}

// kPlan lists (configuration, depth) pairs per tier.
func kPlan(thorough bool) []*KConfig {
	pick := func(name string, depth int) *KConfig {
		c := kConfigByName(name)
		c.Depth = depth
		// development aid (mutation screening, tools/mutate.py): a shallower search; never set by the registered commands
		if d := os.Getenv("VHARNESS_KDEPTH_DELTA"); d != "" {
			if n, err := strconv.Atoi(d); err == nil && c.Depth+n >= 2 {
				c.Depth += n
			}
		}
		return c
	}
	if !thorough {
		return []*KConfig{pick("K1-default", 5), pick("K2-nocache", 4), pick("K3a-shared-lru-1", 5), pick("K4-sessions-slru-1", 4), pick("K8-shared-ik2-sk1", 4), pick("K7-narrow-deep", 6)}
	}
	return []*KConfig{
		pick("K1-default", 6), pick("K2-nocache", 5), pick("K3a-shared-lru-1", 6), pick("K3b-shared-lfu-1", 5), pick("K3c-shared-slru-1", 5), pick("K3d-shared-tinylfu-1", 5),
		pick("K4-sessions-slru-1", 5), pick("K5a-sk-only", 5), pick("K5b-ik-only", 5), pick("K6-shared-lru-2", 5), pick("K1-default-full", 5),
		pick("K8-shared-ik2-sk1", 5), pick("K7-narrow-deep", 8), pick("K7s-narrow-deep-shared", 7),
	}
}

// CheckK runs the K exploration with the oracles of one property.
func CheckK(prop string, witnesses []string) func(r *Report) {
	return func(r *Report) {
		r.Rule = "breadth-first search over operation histories (enc/dec by long-lived and per-request sessions of two processes, clock ticks {61,601,661,1201,3539,3601}s, out-of-band revocation of the latest IK/SK, restart, session close) on the real SDK under the virtual clock; state = canonical dump of the real object graph + metastore + record catalogue; distinct_nontrivial = distinct states reached by a history that contains at least one encrypt"
		plan := kPlan(r.Thorough())
		// the big search gets at most 60% of what is left of the check's wall-clock budget: the targeted parts that run after
		// it (fault spaces, timelines, schedules, real-store runs) must never be starved by it on a loaded machine
		kDeadline := r.Deadline
		if !kDeadline.IsZero() {
			kDeadline = time.Now().Add(time.Until(r.Deadline) * 6 / 10)
		}
		for _, cfg := range plan {
			if !kDeadline.IsZero() && !time.Now().Before(kDeadline) {
				r.Exhaustive = false
				r.Caps = append(r.Caps, cfg.Name+": not started (time budget of the history search)")
				continue
			}
			kr := kBFS(cfg, prop, numWorkers(), kDeadline)
			r.AddK(kr, witnesses)
		}
		if prop == "C01" {
			c01Large(r)
			c01AWS(r)
			c01Suffix(r)
			c01StoreLoad(r)
		}
	}
}

// c01Large is the fixed mini-run for large payloads (1 MiB and 5 MiB + 1): same session, another factory, the
// reference decryptor, for the default and the no-cache policy.
func c01Large(r *Report) {
	for _, spec := range []PolicySpec{SpecDefault, SpecNoCache} {
		for _, size := range []int{1 << 20, 5<<20 + 1} {
			resetGlobals()
			w := NewWorld()
			f := w.NewFactory(spec)
			s, _ := f.GetSession("big")
			pl := make([]byte, size)
			for i := range pl {
				pl[i] = byte(i*7 + i>>8)
			}
			orig := append([]byte(nil), pl...)
			rec, err := s.Encrypt(ctx, pl)
			name := fmt.Sprintf("large-%s-%d", spec.Name, size)
			bad := func(sig, format string, a ...interface{}) {
				r.Viols = append(r.Viols, Viol{Property: "C01", Harness: "C01/large", Sig: sig + "@" + name, Msg: fmt.Sprintf(format, a...), Ops: []string{name}})
			}
			if err != nil {
				bad("large-encrypt-failed", "Encrypt of %d bytes: %v", size, err)
				continue
			}
			if !bytes.Equal(pl, orig) {
				bad("payload-modified", "Encrypt modified a %d byte payload", size)
			}
			if out, err := s.Decrypt(ctx, *rec); err != nil || !bytes.Equal(out, orig) {
				bad("large-decrypt", "same-session decrypt of %d bytes: %v", size, err)
			}
			f2 := w.NewFactory(SpecDefault)
			s2, _ := f2.GetSession("big")
			if out, err := s2.Decrypt(ctx, *cloneDRR(rec)); err != nil || !bytes.Equal(out, orig) {
				bad("large-decrypt-other-factory", "other-factory decrypt of %d bytes: %v", size, err)
			}
			if out, err := ref.Decrypt(tableOf(w.MS), w.KMS.Unwrap, toRefRow(rec)); err != nil || !bytes.Equal(out, orig) {
				bad("large-decrypt-reference", "reference decrypt of %d bytes: %v", size, err)
			}
			s2.Close()
			f2.Close()
			s.Close()
			f.Close()
			r.Evaluations += 4
			r.Transitions += 4
			r.TracesValidated += 4
		}
	}
	// a factory configured without a policy (the SDK's defaults) round-trips, also across a second default factory
	{
		resetGlobals()
		w := NewWorld()
		mk := func() *ae.SessionFactory {
			return ae.NewSessionFactory(&ae.Config{Service: "s", Product: "p"}, w.MS, w.KMS, w.AEAD, ae.WithSecretFactory(w.TF))
		}
		bad := func(sig, format string, a ...interface{}) {
			r.Viols = append(r.Viols, Viol{Property: "C01", Harness: "C01/large", Sig: sig + "@default-policy", Msg: fmt.Sprintf(format, a...), Ops: []string{"default-policy"}})
		}
		f1, f2 := mk(), mk()
		s1, _ := f1.GetSession("A")
		s2, _ := f2.GetSession("A")
		pl := []byte("default-policy-payload")
		if pan := safe(func() {
			rec, err := s1.Encrypt(ctx, append([]byte(nil), pl...))
			if err != nil {
				bad("default-policy-encrypt", "encrypt with the default policy: %v", err)
				return
			}
			for i, s := range []*ae.Session{s1, s2} {
				if out, err := s.Decrypt(ctx, *cloneDRR(rec)); err != nil || !bytes.Equal(out, pl) {
					bad("default-policy-decrypt", "decrypt with the default policy (factory %d): %v", i+1, err)
				}
			}
		}); pan != "" {
			bad("default-policy-panic", "a factory without a policy panicked: %s", pan)
		}
		s1.Close()
		s2.Close()
		f1.Close()
		f2.Close()
		r.Evaluations += 3
		r.Transitions += 3
		r.TracesValidated += 3
	}
	r.Notes = append(r.Notes, "large payloads: 1 MiB and 5 MiB+1 encrypted and decrypted by the same session, another factory and the reference (default and no-cache policy)")
}

// AddK folds a BFS result into the report.
func (r *Report) AddK(kr *KResult, witnesses []string) {
	ri := RunInfo{Name: "K/" + kr.Cfg.Name, Executions: kr.Transitions, States: kr.States, Transitions: int64(kr.Transitions),
		Bound: fmt.Sprintf("depth completed=%d of %d; new states per level=%v", kr.DepthDone, kr.Cfg.Depth, kr.PerLevel), Exhaustive: kr.Exhaustive, Cap: kr.Cap,
		Violations: len(kr.Viols), Extra: kr.Counters, WallS: kr.Wall}
	r.Runs = append(r.Runs, ri)
	r.Evaluations += kr.Transitions
	r.TracesValidated += kr.Transitions
	r.States += kr.States
	r.Transitions += int64(kr.Transitions)
	if kr.States > 1 {
		r.DistinctNontrivial += kr.States - 1
	}
	if !kr.Exhaustive {
		r.Exhaustive = false
		r.Caps = append(r.Caps, kr.Cfg.Name+": "+kr.Cap)
		if strings.HasPrefix(kr.Cap, "MACHINERY-GAP") {
			r.MachineryError = kr.Cfg.Name + ": " + kr.Cap
		}
	}
	r.Viols = append(r.Viols, kr.Viols...)
	for _, s := range kr.Samples {
		if len(r.Samples) < 6 {
			r.Samples = append(r.Samples, map[string]interface{}{"config": kr.Cfg.Name, "history": s})
		}
	}
	for k, v := range kr.Counters {
		r.Counters[kr.Cfg.Name+"/"+k] = v
	}
	var missing []string
	for _, wname := range witnesses {
		if kr.Counters[wname] == 0 {
			missing = append(missing, wname)
		}
	}
	sort.Strings(missing)
	if len(missing) > 0 {
		r.Notes = append(r.Notes, fmt.Sprintf("%s: oracle antecedents never reached at this depth: %v", kr.Cfg.Name, missing))
	}
}

// ---------------------------------------------------------------------------------
// C20: local probes from every state of K: repeat an operation that just succeeded on
// the same long-lived session and count the external calls of the repetition.
// ---------------------------------------------------------------------------------

type kProbeResult struct {
	Viols    []kViol        `json:"v,omitempty"`
	Counters map[string]int `json:"c,omitempty"`
}

func kProbe(cfg *KConfig, hist []string) kProbeResult {
	out := kProbeResult{Counters: map[string]int{}}
	// which probes make sense is decided from the state after hist
	_, enabled, _ := kRun(cfg, hist, false, false)
	var xs []string
	for _, op := range enabled {
		if strings.HasPrefix(op, "enc:1:L:") || (strings.HasPrefix(op, "dec:1:L:") && strings.HasSuffix(op, ":new")) {
			xs = append(xs, op)
		}
	}
	for _, x := range xs {
		for _, gap := range []int{0, P + 1, R - 1, R + 1} {
			probe := []string{x}
			if gap > 0 {
				probe = append(probe, fmt.Sprintf("tick:%d", gap))
			}
			probe = append(probe, x)
			kProbeRun(cfg, hist, probe, gap, &out)
		}
		// mixed probes: another operation of the same session in between (same instant) must not make the repetition miss:
		// X ; Y ; X with Y an encrypt / a decrypt of the newest or of the oldest record of the same partition
		// (only with unbounded key caches: in a bounded one Y may legitimately evict the key X uses)
		if cfg.Spec.IKSize != 0 || cfg.Spec.SKSize != 0 {
			// a bounded shared IK cache that holds the whole working set (both partitions): alternating between the
			// partitions' newest keys must stay free of calls as well (Y = an encrypt / newest-record decrypt of the OTHER partition)
			if cfg.Spec.SharedIK && cfg.Spec.IKSize >= 2 {
				for _, y := range enabled {
					f := strings.Split(y, ":")
					if len(f) >= 4 && f[1] == "1" && f[2] == "L" && f[3] != strings.Split(x, ":")[3] && (f[0] == "enc" || (f[0] == "dec" && strings.HasSuffix(y, ":new"))) {
						kProbeAlternate(cfg, hist, x, y, &out)
					}
				}
			}
			continue
		}
		part := strings.Split(x, ":")[3]
		for _, y := range enabled {
			if y != x && (y == "enc:1:L:"+part || strings.HasPrefix(y, "dec:1:L:"+part+":")) {
				kProbeRun(cfg, hist, []string{x, y, x}, 0, &out)
			}
		}
	}
	return out
}

func kProbeRun(cfg *KConfig, hist, probe []string, gap int, out *kProbeResult) {
	resetGlobals()
	fail := func(sig, format string, a ...interface{}) {
		out.Viols = append(out.Viols, kViol{Prop: "C20", Sig: sig, Msg: fmt.Sprintf(format, a...) + fmt.Sprintf(" [history %v + probe %v]", hist, probe)})
	}
	x := vsched.Run(vsched.RunOptions{MaxSteps: 2000000}, func() {
		vsched.BeginQuiet()
		w := newKWorld(cfg.Spec)
		vsched.Quiesce()
		for _, op := range hist {
			w.apply(op)
		}
		first := w.apply(probe[0])
		if first.Err != nil || first.Panic != "" {
			out.Counters["probe-first-op-failed"]++
			return // nothing "already succeeded"
		}
		msFromFirstEnd := len(w.ms.Calls)
		for _, op := range probe[1 : len(probe)-1] {
			before := len(w.ms.Calls)
			if mid := w.apply(op); mid.Err != nil || mid.Panic != "" {
				out.Counters["probe-middle-op-failed"]++
				return
			}
			if gap == 0 && cfg.Spec.IKSize != 0 && len(w.ms.Calls) > before {
				// bounded caches: a middle operation that loaded or created keys may legitimately evict the key X uses
				out.Counters["C20.exempt:middle-op-loaded-keys"]++
				return
			}
		}
		if len(probe) == 3 && !strings.HasPrefix(probe[1], "tick") {
			out.Counters["C20.mixed-probe"]++
		}
		msFrom, kmsFrom := len(w.ms.Calls), len(w.kms.Calls)
		second := w.apply(probe[len(probe)-1])
		ms := w.ms.Calls[msFrom:]
		kms := w.kms.Calls[kmsFrom:]
		now := second.T
		// the key the repeated operation relies on
		ikCreated := first.Rec.IKCreated
		ikID := first.Rec.DRR.Key.ParentKeyMeta.ID
		ikRow := w.row(ikID, ikCreated)
		exempt := ""
		var skRow *doubles.Row
		if ikRow == nil {
			exempt = "ik-row-missing"
		} else {
			if ikRow.Rec.ParentKeyMeta != nil {
				skRow = w.row(ikRow.Rec.ParentKeyMeta.ID, ikRow.Rec.ParentKeyMeta.Created)
			}
			switch {
			case first.Kind == "enc" && (ikRow.Rec.Revoked || now > ikCreated+E):
				exempt = "ik-invalid"
			case first.Kind == "enc" && skRow != nil && (skRow.Rec.Revoked || now > skRow.Created+E):
				exempt = "parent-sk-invalid"
			case first.Kind == "dec" && skRow != nil && skRow.Rec.Revoked && false:
				exempt = ""
			}
		}
		// did the first operation (re)load the keys it used? then their cache age is the probe's own
		firstLoaded := false
		for _, c := range w.ms.Calls[first.msFrom:msFromFirstEnd] {
			if cfg.Spec.CacheIK && c.ID == ikID {
				firstLoaded = true
			}
			if !cfg.Spec.CacheIK && strings.HasPrefix(c.ID, "_SK_") {
				firstLoaded = true
			}
		}
		if second.Err != nil || second.Panic != "" {
			fail("repeat-failed", "repeating %s after it succeeded failed: %v %s", probe[0], second.Err, second.Panic)
			return
		}
		noCache := cfg.Spec.NoCache
		switch {
		case noCache:
			out.Counters["C20.nocache-probe"]++
			if len(ms) == 0 {
				fail("nocache-served-from-memory", "with caching disabled the repeated %s performed no metastore call: something was retained", probe[0])
			}
			if live := w.F[0].tf.Live(); len(live) > 0 {
				fail("nocache-retains", "with caching disabled %d secrets stay live between calls", len(live))
			}
		case exempt != "":
			out.Counters["C20.exempt:"+exempt]++
		case gap > 0 && gap <= R-1 && !firstLoaded:
			// the first operation was itself a cache hit: the entry's age is older than the probe and
			// the interval may legitimately end inside the gap
			out.Counters["C20.exempt:entry-older-than-probe"]++
		case gap <= R-1:
			out.Counters["C20.hit-probe"]++
			if !cfg.Spec.CacheIK && first.Kind != "" {
				// IK caching off by policy: only the SK may be served from cache
				if len(kms) > 0 {
					fail("sk-not-cached", "repeating %s %ds later unwrapped the system key again (%d KMS calls) although system keys are cached", probe[0], gap, len(kms))
				}
				break
			}
			if len(ms) != 0 || len(kms) != 0 {
				fail(fmt.Sprintf("cache-miss:%s:gap%d", first.Kind, gapClass(gap)), "repeating %s %ds after it succeeded performed %d metastore and %d KMS calls, want 0: %s", probe[0], gap, len(ms), len(kms), callList(ms, kms))
			}
		default: // one interval elapsed: the key's record is re-read once
			out.Counters["C20.refresh-probe"]++
			if !cfg.Spec.CacheIK {
				break
			}
			ikReads, other := 0, 0
			for _, c := range ms {
				switch {
				case c.Op == "Store":
					other++
				case c.ID == ikID:
					ikReads++
				case strings.HasPrefix(c.ID, "_SK_"):
					// the parent may be re-read too when it is stale
				default:
					other++
				}
			}
			if ikRow != nil && ikRow.Rec.Revoked && ikReads == 0 {
				// a key already known to be revoked need not be re-read
				out.Counters["C20.exempt:revoked-key-not-reread"]++
			} else if ikReads != 1 {
				fail("refresh-reads:"+first.Kind, "repeating %s one interval later read the key's record %d times, want exactly once: %s", probe[0], ikReads, callList(ms, kms))
			}
			if other > 0 {
				fail("refresh-extra-calls:"+first.Kind, "repeating %s one interval later made %d unrelated metastore calls: %s", probe[0], other, callList(ms, kms))
			}
			if len(kms) > 1 {
				fail("refresh-kms", "repeating %s one interval later made %d KMS calls, want at most 1", probe[0], len(kms))
			}
		}
		// a system key is unwrapped at most once per factory and interval
		if cfg.Spec.CacheSK && !cfg.Spec.NoCache && cfg.Spec.SKPolicy == "" {
			last := map[string]int64{}
			for _, c := range w.kms.Calls {
				if c.Op != "DecryptKey" || c.Result != "ok" {
					continue
				}
				k := c.Who + "/" + c.ID
				if t, ok := last[k]; ok && c.At-t <= R {
					// exempt: the SK is revoked (an invalid latest key that cannot be replaced is reloaded on every use)
					revoked := false
					for _, r := range w.ms.SortedRows() {
						if strings.HasPrefix(r.ID, "_SK_") && r.Rec.Revoked && fmt.Sprintf("%x", r.Rec.EncryptedKey[:8]) == c.ID {
							revoked = true
						}
					}
					if revoked {
						out.Counters["C20.exempt:unwrap-of-revoked-sk"]++
					} else {
						fail("sk-unwrapped-twice", "factory %s asked the KMS to unwrap the same system key at t=%d and again at t=%d (interval %d)", c.Who, t, c.At, R)
					}
				}
				last[k] = c.At
			}
			out.Counters["C20.unwrap-log-checked"]++
		}
	})
	if x.PanicVal != nil || x.Deadlock != "" || x.Horizon {
		fail("probe-crash", "probe execution aborted: panic=%v deadlock=%s", x.PanicVal, x.Deadlock)
	}
}

// kProbeAlternate is the probe for bounded shared caches: X; Y; X; Y; X; Y at one instant, X and Y on different
// partitions. The first round may load keys, the second may still miss once (older generations that were cached before
// the probe can push a key out while they are being replaced); after the second round the two most recently used
// entries of an LRU cache of capacity >= 2 are exactly the keys X and Y use, so the third round makes no call.
func kProbeAlternate(cfg *KConfig, hist []string, x, y string, out *kProbeResult) {
	resetGlobals()
	probe := []string{x, y, x, y, x, y}
	fail := func(sig, format string, a ...interface{}) {
		out.Viols = append(out.Viols, kViol{Prop: "C20", Sig: sig, Msg: fmt.Sprintf(format, a...) + fmt.Sprintf(" [history %v + probe %v]", hist, probe)})
	}
	if cfg.Spec.IKPolicy != "lru" || cfg.Spec.IKSize < 2 {
		return // the retention argument is LRU's
	}
	xr := vsched.Run(vsched.RunOptions{MaxSteps: 2000000}, func() {
		vsched.BeginQuiet()
		w := newKWorld(cfg.Spec)
		vsched.Quiesce()
		for _, op := range hist {
			w.apply(op)
		}
		var last [2]*kStep
		for i, op := range probe[:4] {
			st := w.apply(op)
			if st.Err != nil || st.Panic != "" || st.Rec == nil {
				out.Counters["probe-first-op-failed"]++
				return
			}
			last[i%2] = st
		}
		now := vclock.Unix()
		for _, st := range last {
			id := st.Rec.DRR.Key.ParentKeyMeta.ID
			ikRow := w.row(id, st.Rec.IKCreated)
			if ikRow == nil || ikRow.Rec.ParentKeyMeta == nil {
				out.Counters["C20.exempt:ik-row-missing"]++
				return
			}
			skRow := w.row(ikRow.Rec.ParentKeyMeta.ID, ikRow.Rec.ParentKeyMeta.Created)
			if st.Kind == "enc" && (ikRow.Rec.Revoked || now > ikRow.Created+E || skRow == nil || skRow.Rec.Revoked || now > skRow.Created+E) {
				out.Counters["C20.exempt:ik-invalid"]++
				return
			}
		}
		out.Counters["C20.alternate-probe"]++
		for i, op := range probe[4:] {
			msFrom, kmsFrom := len(w.ms.Calls), len(w.kms.Calls)
			st := w.apply(op)
			if st.Err != nil || st.Panic != "" {
				fail("repeat-failed", "repeating %s after it succeeded failed: %v %s", op, st.Err, st.Panic)
				return
			}
			if ms, kms := w.ms.Calls[msFrom:], w.kms.Calls[kmsFrom:]; len(ms) != 0 || len(kms) != 0 {
				fail(fmt.Sprintf("cache-miss:alternating:%s", st.Kind), "operation %d of the probe (%s for the third time at the same instant; the shared intermediate-key cache is configured to hold %d keys, the two partitions use 2) performed %d metastore and %d KMS calls, want 0: %s",
					i+5, op, cfg.Spec.IKSize, len(ms), len(kms), callList(ms, kms))
				return
			}
		}
	})
	if xr.PanicVal != nil || xr.Deadlock != "" || xr.Horizon {
		fail("probe-crash", "probe execution aborted: panic=%v deadlock=%s", xr.PanicVal, xr.Deadlock)
	}
}

func gapClass(g int) int {
	if g == 0 {
		return 0
	}
	if g < R {
		return 1
	}
	return 2
}

func callList(ms, kms []doubles.Call) string {
	var sb strings.Builder
	for _, c := range ms {
		fmt.Fprintf(&sb, "%s(%s/%d)=%s; ", c.Op, c.ID, c.Created, c.Result)
	}
	for _, c := range kms {
		fmt.Fprintf(&sb, "kms.%s=%s; ", c.Op, c.Result)
	}
	return sb.String()
}

// CheckC20 runs K with the repetition probes.
func CheckC20(r *Report) {
	r.Rule = "from every state of the K history space reached within the depth bound, every encrypt / decrypt that succeeds on a long-lived session of F1 is repeated on the same session immediately, 61 s, 599 s and 601 s later, and (unbounded key caches) immediately after one other encrypt / decrypt of the newest or oldest record of the same partition, and the metastore / KMS calls of the repetition are counted (0 within the interval; the key's record read exactly once after it); the KMS log of every probe history is checked for two unwraps of one system key by one factory within an interval; non-trivial = probes not exempt (key invalid / cannot be replaced)"
	type pc struct {
		name  string
		depth int
	}
	plan := []pc{{"K1-default", 3}, {"K3a-shared-lru-1", 3}, {"K4-sessions-slru-1", 3}, {"K2-nocache", 2}, {"K5a-sk-only", 3}, {"K8-shared-ik2-sk1", 3}}
	if r.Thorough() {
		plan = []pc{{"K1-default", 4}, {"K3a-shared-lru-1", 4}, {"K3c-shared-slru-1", 4}, {"K4-sessions-slru-1", 4}, {"K6-shared-lru-2", 4}, {"K2-nocache", 3}, {"K5a-sk-only", 4}, {"K5b-ik-only", 3}, {"K1-default-full", 3}, {"K8-shared-ik2-sk1", 4}}
	}
	for _, p := range plan {
		if !r.TimeLeft() {
			r.Exhaustive = false
			r.Caps = append(r.Caps, p.name+": not started (time budget)")
			continue
		}
		cfg := kConfigByName(p.name)
		cfg.Depth = p.depth + 1 // states up to depth p.depth are expanded (and probed)
		cfg.Probes = true
		kr := kBFS(cfg, "C20", numWorkers(), r.Deadline)
		r.AddK(kr, []string{"C20.hit-probe", "C20.refresh-probe", "C20.unwrap-log-checked"})
		r.DistinctNontrivial += kr.Counters["C20.hit-probe"] + kr.Counters["C20.refresh-probe"] + kr.Counters["C20.nocache-probe"]
		r.Evaluations += kr.Counters["C20.hit-probe"] + kr.Counters["C20.refresh-probe"] + kr.Counters["C20.nocache-probe"]
	}
	if r.TimeLeft() {
		c20Sched(r)
		r.Rule += " || PLUS schedules: two goroutines of one factory hit a stale system key / a stale shared intermediate key together (every interleaving up to the preemption bound): one KMS unwrap and one record read per key"
	}
}
