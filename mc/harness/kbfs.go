package harness

import (
	"bufio"
	"encoding/json"
	"fmt"
	"io"
	"os"
	"os/exec"
	"runtime"
	"sort"
	"strings"
	"sync"
	"time"

	"asherahverif/shim/vsched"
)

// KConfig is one configuration of the K state space.
type KConfig struct {
	Name  string
	Spec  PolicySpec
	Alpha KAlphabet
	Depth int
}

// kExpand is the worker's answer for one history: the successors by every enabled operation.
type kExpand struct {
	Hist  []string `json:"h"`
	Succ  []kSucc  `json:"s"`
	Error string   `json:"e,omitempty"`
}

type kSucc struct {
	Op       string         `json:"op"`
	Key      string         `json:"k"` // hex of the state hash
	Viols    []kViol        `json:"v,omitempty"`
	Counters map[string]int `json:"c,omitempty"`
	Dump     string         `json:"d,omitempty"`
}

// kRun replays hist (+ optional probe ops) on fresh objects and returns the world after it,
// the judged last step and the violations. Everything runs under the controlled scheduler in
// its default schedule with run-to-quiescence after every operation.
func kRun(cfg *KConfig, hist []string, judgeLast bool, wantDump bool) (succ kSucc, enabled []string, fatal string) {
	resetGlobals()
	var w *kWorld
	j := &kJudge{counters: map[string]int{}}
	x := vsched.Run(vsched.RunOptions{MaxSteps: 2000000}, func() {
		vsched.BeginQuiet()
		w = newKWorld(cfg.Spec)
		vsched.Quiesce()
		var last *kStep
		for i, op := range hist {
			st := w.apply(op)
			if i == len(hist)-1 {
				last = st
			}
		}
		if judgeLast && last != nil {
			w.judgeStep(last, j)
		}
		dump, reach := w.stateDump()
		if judgeLast {
			w.judgeState(reach, j)
		}
		k := hashKey(dump)
		succ.Key = fmt.Sprintf("%x", k[:])
		if wantDump {
			succ.Dump = dump
		}
		enabled = w.enabled(cfg.Alpha)
	})
	if len(hist) > 0 {
		succ.Op = hist[len(hist)-1]
	}
	switch {
	case x.PanicVal != nil:
		j.fail("*", "harness-panic", "panic outside an operation: %v\n%s", x.PanicVal, x.PanicStack)
	case x.Deadlock != "":
		j.fail("*", "deadlock", "deadlock after %v: %s", hist, x.Deadlock)
	case x.Horizon:
		j.fail("*", "horizon", "step cap reached replaying %v", hist)
	}
	succ.Viols = j.viols
	succ.Counters = j.counters
	return
}

// kExpandOne computes all successors of one history.
func kExpandOne(cfg *KConfig, hist []string) kExpand {
	out := kExpand{Hist: hist}
	_, enabled, _ := kRun(cfg, hist, false, false)
	for _, op := range enabled {
		h2 := append(append([]string{}, hist...), op)
		s, _, _ := kRun(cfg, h2, true, false)
		out.Succ = append(out.Succ, s)
	}
	return out
}

// KWorkerMain is the body of `vharness kworker`: histories in (JSON lines), expansions out.
func KWorkerMain(cfgName string, in io.Reader, out io.Writer) {
	cfg := kConfigByName(cfgName)
	if cfg == nil {
		fmt.Fprintln(os.Stderr, "unknown K configuration", cfgName)
		os.Exit(2)
	}
	rd := bufio.NewReaderSize(in, 1<<20)
	wr := bufio.NewWriter(out)
	enc := json.NewEncoder(wr)
	for {
		line, err := rd.ReadBytes('\n')
		if len(line) > 0 {
			var hist []string
			if e := json.Unmarshal(line, &hist); e != nil {
				fmt.Fprintln(os.Stderr, "kworker: bad input", e)
				os.Exit(2)
			}
			enc.Encode(kExpandOne(cfg, hist))
			wr.Flush()
		}
		if err != nil {
			return
		}
	}
}

// KResult is the outcome of one BFS.
type KResult struct {
	Cfg         *KConfig
	States      int
	Transitions int
	DepthDone   int
	Exhaustive  bool
	Cap         string
	Viols       []Viol
	Counters    map[string]int
	Samples     [][]string
	PerLevel    []int
	Wall        float64
}

// kBFS explores the configuration breadth-first with a pool of worker processes.
func kBFS(cfg *KConfig, prop string, workers int, deadline time.Time) *KResult {
	t0 := time.Now()
	res := &KResult{Cfg: cfg, Counters: map[string]int{}, Exhaustive: true}
	self, _ := os.Executable()
	type wproc struct {
		cmd *exec.Cmd
		in  io.WriteCloser
		out *bufio.Reader
	}
	if workers < 1 {
		workers = 1
	}
	var procs []*wproc
	for i := 0; i < workers; i++ {
		cmd := exec.Command(self, "kworker", cfg.Name)
		cmd.Env = append(os.Environ(), "GOMAXPROCS=2")
		cmd.Stderr = os.Stderr
		in, _ := cmd.StdinPipe()
		outp, _ := cmd.StdoutPipe()
		if err := cmd.Start(); err != nil {
			res.Cap = "cannot start worker: " + err.Error()
			res.Exhaustive = false
			return res
		}
		procs = append(procs, &wproc{cmd: cmd, in: in, out: bufio.NewReaderSize(outp, 1<<20)})
	}
	defer func() {
		for _, p := range procs {
			p.in.Close()
			p.cmd.Wait()
		}
	}()
	root, _, _ := kRun(cfg, nil, false, false)
	seen := map[string]bool{root.Key: true}
	frontier := [][]string{{}}
	sigSeen := map[string]bool{}
	res.States = 1
	for depth := 0; depth < cfg.Depth && len(frontier) > 0; depth++ {
		if !deadline.IsZero() && time.Now().After(deadline) {
			res.Cap = fmt.Sprintf("deadline before depth %d", depth+1)
			res.Exhaustive = false
			break
		}
		// distribute the frontier
		results := make([]kExpand, len(frontier))
		var mu sync.Mutex
		next := 0
		var wg sync.WaitGroup
		timedOut := false
		for _, p := range procs {
			wg.Add(1)
			go func(p *wproc) {
				defer wg.Done()
				encd := json.NewEncoder(p.in)
				for {
					mu.Lock()
					if next >= len(frontier) || timedOut {
						mu.Unlock()
						return
					}
					if !deadline.IsZero() && next%64 == 0 && time.Now().After(deadline) {
						timedOut = true
						mu.Unlock()
						return
					}
					i := next
					next++
					mu.Unlock()
					encd.Encode(frontier[i])
					line, err := p.out.ReadBytes('\n')
					if err != nil {
						results[i] = kExpand{Hist: frontier[i], Error: "worker died: " + err.Error()}
						return
					}
					var ex kExpand
					if e := json.Unmarshal(line, &ex); e != nil {
						ex = kExpand{Hist: frontier[i], Error: "bad worker output: " + e.Error()}
					}
					results[i] = ex
				}
			}(p)
		}
		wg.Wait()
		var nextFrontier [][]string
		done := 0
		for i, ex := range results {
			if ex.Hist == nil && ex.Error == "" {
				continue // not expanded (deadline)
			}
			done++
			if ex.Error != "" {
				res.Cap = ex.Error
				res.Exhaustive = false
				continue
			}
			for _, s := range ex.Succ {
				res.Transitions++
				for k, v := range s.Counters {
					res.Counters[k] += v
				}
				h2 := append(append([]string{}, frontier[i]...), s.Op)
				for _, v := range s.Viols {
					if v.Prop != prop && v.Prop != "*" {
						continue
					}
					sig := v.Sig + "@" + cfg.Name
					if sigSeen[sig] {
						res.Counters["violating-transitions"]++
						continue
					}
					sigSeen[sig] = true
					res.Counters["violating-transitions"]++
					res.Viols = append(res.Viols, Viol{Property: prop, Harness: "K/" + cfg.Name, Sig: sig, Msg: v.Msg, Ops: h2})
				}
				if !seen[s.Key] {
					seen[s.Key] = true
					res.States++
					nextFrontier = append(nextFrontier, h2)
					if len(res.Samples) < 3 && len(h2) == cfg.Depth {
						res.Samples = append(res.Samples, h2)
					}
				}
			}
		}
		if timedOut || done < len(frontier) {
			res.Cap = fmt.Sprintf("deadline at depth %d (%d of %d states of that level expanded)", depth+1, done, len(frontier))
			res.Exhaustive = false
			res.PerLevel = append(res.PerLevel, len(nextFrontier))
			break
		}
		res.DepthDone = depth + 1
		res.PerLevel = append(res.PerLevel, len(nextFrontier))
		frontier = nextFrontier
	}
	if len(res.Samples) == 0 && len(frontier) > 0 {
		res.Samples = append(res.Samples, frontier[len(frontier)-1])
	}
	res.Wall = time.Since(t0).Seconds()
	return res
}

func numWorkers() int {
	n := runtime.NumCPU() - 2
	if n < 1 {
		n = 1
	}
	if n > 14 {
		n = 14
	}
	return n
}

// ------------------------------------------------------------------ configurations

var tickAlphabet = []int{P + 1, R + 1, R + P + 1, 2*R + 1, E - P - 1, E + 1}

func kConfigs() []*KConfig {
	quickA := KAlphabet{Ticks: tickAlphabet}
	fullA := KAlphabet{Ticks: tickAlphabet, Full: true}
	cs := []*KConfig{
		{Name: "K1-default", Spec: SpecDefault, Alpha: quickA},
		{Name: "K2-nocache", Spec: SpecNoCache, Alpha: quickA},
		{Name: "K3a-shared-lru-1", Spec: SpecShared("lru", 1), Alpha: quickA},
		{Name: "K3b-shared-lfu-1", Spec: SpecShared("lfu", 1), Alpha: quickA},
		{Name: "K3c-shared-slru-1", Spec: SpecShared("slru", 1), Alpha: quickA},
		{Name: "K3d-shared-tinylfu-1", Spec: SpecShared("tinylfu", 1), Alpha: quickA},
		{Name: "K4-sessions-slru-1", Spec: SpecSessions("slru", 1), Alpha: quickA},
		{Name: "K5a-sk-only", Spec: SpecSKOnly, Alpha: quickA},
		{Name: "K5b-ik-only", Spec: SpecIKOnly, Alpha: quickA},
		{Name: "K6-shared-lru-2", Spec: SpecShared("lru", 2), Alpha: quickA},
	}
	for _, c := range append([]*KConfig{}, cs...) {
		f := *c
		f.Name = c.Name + "-full"
		f.Alpha = fullA
		cs = append(cs, &f)
	}
	return cs
}

func kConfigByName(n string) *KConfig {
	name, depth, _ := strings.Cut(n, "@")
	for _, c := range kConfigs() {
		if c.Name == name {
			cc := *c
			if depth != "" {
				cc.Depth = atoi(depth)
			}
			return &cc
		}
	}
	return nil
}

// kPlan lists (configuration, depth) pairs per tier.
func kPlan(thorough bool) []*KConfig {
	pick := func(name string, depth int) *KConfig {
		c := kConfigByName(name)
		c.Depth = depth
		return c
	}
	if !thorough {
		return []*KConfig{pick("K1-default", 5), pick("K2-nocache", 4), pick("K3a-shared-lru-1", 5), pick("K4-sessions-slru-1", 4)}
	}
	return []*KConfig{
		pick("K1-default", 6), pick("K2-nocache", 5), pick("K3a-shared-lru-1", 6), pick("K3b-shared-lfu-1", 5), pick("K3c-shared-slru-1", 5),
		pick("K4-sessions-slru-1", 5), pick("K5a-sk-only", 5), pick("K5b-ik-only", 5), pick("K6-shared-lru-2", 5), pick("K1-default-full", 5),
	}
}

// CheckK runs the K exploration with the oracles of one property.
func CheckK(prop string, witnesses []string) func(r *Report) {
	return func(r *Report) {
		r.Rule = "breadth-first search over operation histories (enc/dec by long-lived and per-request sessions of two processes, clock ticks {61,601,661,1201,3539,3601}s, out-of-band revocation of the latest IK/SK, restart, session close) on the real SDK under the virtual clock; state = canonical dump of the real object graph + metastore + record catalogue; distinct_nontrivial = distinct states reached by a history that contains at least one encrypt"
		plan := kPlan(r.Thorough())
		for _, cfg := range plan {
			if !r.TimeLeft() {
				r.Exhaustive = false
				r.Caps = append(r.Caps, cfg.Name+": not started (time budget)")
				continue
			}
			kr := kBFS(cfg, prop, numWorkers(), r.Deadline)
			r.AddK(kr, witnesses)
		}
	}
}

// AddK folds a BFS result into the report.
func (r *Report) AddK(kr *KResult, witnesses []string) {
	ri := RunInfo{Name: "K/" + kr.Cfg.Name, Executions: kr.Transitions, States: kr.States, Transitions: int64(kr.Transitions),
		Bound: fmt.Sprintf("depth completed=%d of %d; new states per level=%v", kr.DepthDone, kr.Cfg.Depth, kr.PerLevel), Exhaustive: kr.Exhaustive, Cap: kr.Cap,
		Violations: len(kr.Viols), Extra: kr.Counters, WallS: kr.Wall}
	r.Runs = append(r.Runs, ri)
	r.Evaluations += kr.Transitions
	r.TracesValidated += kr.Transitions
	r.States += kr.States
	r.Transitions += int64(kr.Transitions)
	if kr.States > 1 {
		r.DistinctNontrivial += kr.States - 1
	}
	if !kr.Exhaustive {
		r.Exhaustive = false
		r.Caps = append(r.Caps, kr.Cfg.Name+": "+kr.Cap)
	}
	r.Viols = append(r.Viols, kr.Viols...)
	for _, s := range kr.Samples {
		if len(r.Samples) < 6 {
			r.Samples = append(r.Samples, map[string]interface{}{"config": kr.Cfg.Name, "history": s})
		}
	}
	for k, v := range kr.Counters {
		r.Counters[kr.Cfg.Name+"/"+k] = v
	}
	var missing []string
	for _, wname := range witnesses {
		if kr.Counters[wname] == 0 {
			missing = append(missing, wname)
		}
	}
	sort.Strings(missing)
	if len(missing) > 0 {
		r.Notes = append(r.Notes, fmt.Sprintf("%s: oracle antecedents never reached at this depth: %v", kr.Cfg.Name, missing))
	}
}
