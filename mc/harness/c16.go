package harness

import (
	"bytes"
	"fmt"
	"reflect"
	"strings"
	"time"

	ae "github.com/godaddy/asherah/go/appencryption"

	"asherahverif/doubles"
	"asherahverif/explore"
	"asherahverif/shim/vclock"
	"asherahverif/shim/vsched"
	vsync "asherahverif/shim/vsync"
	"asherahverif/walker"
)

// ---------------------------------------------------------------------------------
// C16: cached sessions under every schedule: goroutines get / use / close sessions of
// more partitions than the session cache holds.
// ---------------------------------------------------------------------------------

type c16Scenario struct {
	name        string
	policy      string
	cap         int
	threads     [][]string // ops: get:P enc dec close tick:N fclose post:K await:K
	expectShare bool       // no eviction / expiry possible: all gets of one partition must share one session
}

type c16Thread struct {
	sess    *ae.Session
	part    string
	rec     *ae.DataRowRecord
	pay     []byte
	fails   []string
	sigs    []string
	done    int
	got     []*ae.Session
	gotPart []string
}

func (sc c16Scenario) body(c *explore.Ctx) {
	vsched.BeginQuiet()
	w := NewWorld()
	spec := SpecSessions(sc.policy, sc.cap)
	f := w.NewFactory(spec)
	// every partition gets its keys created up front so that the threads race on the session cache, not on key creation
	parts := map[string]bool{}
	for _, ops := range sc.threads {
		for _, op := range ops {
			if strings.HasPrefix(op, "get:") {
				parts[op[4:]] = true
			}
		}
	}
	pre := w.NewFactory(SpecDefault)
	for _, p := range sortedKeys(parts) {
		s, _ := pre.GetSession(p)
		if _, err := s.Encrypt(ctx, []byte("warm")); err != nil {
			panic(err)
		}
		s.Close()
	}
	pre.Close()
	preSecrets := len(w.TF.Secrets)
	vsched.EndQuiet()
	gates := map[string]*vsync.WaitGroup{}
	for _, ops := range sc.threads {
		for _, op := range ops {
			if strings.HasPrefix(op, "post:") {
				g := &vsync.WaitGroup{}
				g.Add(1)
				gates[op[5:]] = g
			}
		}
	}
	factoryClosed := false
	ths := make([]*c16Thread, len(sc.threads))
	for ti, ops := range sc.threads {
		ti, ops := ti, ops
		th := &c16Thread{}
		ths[ti] = th
		vsched.GoNamed(fmt.Sprintf("user%d", ti), func() {
			failf := func(sig, format string, a ...interface{}) {
				th.sigs = append(th.sigs, sig)
				th.fails = append(th.fails, fmt.Sprintf("thread %d: ", ti)+fmt.Sprintf(format, a...))
			}
			for oi, op := range ops {
				kind, arg, _ := strings.Cut(op, ":")
				pan := safe(func() {
					switch kind {
					case "get":
						s, err := f.GetSession(arg)
						if err != nil {
							failf("get-failed", "GetSession(%s): %v", arg, err)
							return
						}
						th.sess, th.part = s, arg
						th.got = append(th.got, s)
						th.gotPart = append(th.gotPart, arg)
					case "enc":
						th.pay = []byte(fmt.Sprintf("t%d-op%d", ti, oi))
						r, err := th.sess.Encrypt(ctx, append([]byte(nil), th.pay...))
						if err != nil {
							failf("held-session-failed:enc:"+errClass(err), "encrypt on the held session of %s failed: %v", th.part, err)
							return
						}
						th.rec = r
					case "dec":
						out, err := th.sess.Decrypt(ctx, *cloneDRR(th.rec))
						if err != nil {
							failf("held-session-failed:dec:"+errClass(err), "decrypt on the held session of %s failed: %v", th.part, err)
						} else if !bytes.Equal(out, th.pay) {
							failf("held-session-wrong-bytes", "decrypt on the held session returned wrong bytes")
						}
					case "close":
						if err := th.sess.Close(); err != nil {
							failf("close-error", "Session.Close: %v", err)
						}
						th.sess = nil
					case "tick":
						vsched.Point(&vsched.Op{Kind: "clock.tick"})
						vclock.Advance(time.Duration(atoi(arg)) * time.Second)
						vsched.GlobalEvent("tick")
					case "fclose":
						f.Close()
						factoryClosed = true
					case "post":
						gates[arg].Done()
					case "await":
						gates[arg].Wait()
					}
				})
				if pan != "" {
					failf("panic:"+kind, "%s panicked: %s", op, pan)
				}
				th.done = oi + 1
			}
		})
	}
	vsched.Quiesce()
	var outcome []string
	for ti, th := range ths {
		if th.done != len(sc.threads[ti]) {
			c.Failf("blocked", "thread %d stopped at op %d (%s); blocked threads: %v", ti, th.done, sc.threads[ti][th.done], vsched.Blocked())
		}
		for i := range th.fails {
			c.Failf(th.sigs[i], "%s", th.fails[i])
		}
		if len(th.fails) > 0 {
			outcome = append(outcome, "fail")
		} else {
			outcome = append(outcome, "ok")
		}
	}
	if n := len(w.TF.UseAfterClose); n > 0 {
		c.Failf("use-after-destroy", "%d accesses to destroyed secrets: %v", n, w.TF.UseAfterClose)
	}
	// sharing
	if sc.expectShare {
		first := map[string]*ae.Session{}
		for _, th := range ths {
			for i, s := range th.got {
				if p, ok := first[th.gotPart[i]]; ok && p != s {
					c.Failf("not-shared", "two GetSession(%s) calls with no eviction or expiry in between returned different sessions", th.gotPart[i])
				}
				first[th.gotPart[i]] = s
			}
		}
	}
	// every session that left the cache and has no holder has been torn down: its secrets are either closed or
	// still reachable from the factory (= still cached)
	reach, negRefs := c16Reach(f)
	distinctSessions := map[*ae.Session]bool{}
	for _, th := range ths {
		for _, s := range th.got {
			distinctSessions[s] = true
		}
	}
	outcome = append(outcome, fmt.Sprintf("sessions=%d", len(distinctSessions)))
	if !factoryClosed {
		// the cache never holds more sessions than it was configured for (the holders keep evicted ones alive, the cache does not)
		if n := ae.VerifSessionCacheCount(f); n > sc.cap {
			c.Failf("session-cache-over-capacity", "the session cache holds %d sessions, its configured capacity is %d", n, sc.cap)
		}
	}
	if !factoryClosed {
		for _, s := range w.TF.Secrets[preSecrets:] {
			if !s.Closed && !reach[s] {
				c.Failf("evicted-session-not-torn-down", "secret#%d belongs to a session that left the cache and was closed by its last holder, but it was never released (blocked threads: %v)", s.ID, vsched.Blocked())
				break
			}
		}
	}
	// all holders are done: closing the factory releases everything, Remove goroutines and the event loop terminate
	vsched.BeginQuiet()
	if !factoryClosed {
		f.Close()
	}
	vsched.EndQuiet()
	if b := vsched.Blocked(); len(b) > 0 {
		c.Failf("threads-left-after-factory-close", "goroutines still parked after the factory was closed: %v", b)
	}
	for _, s := range w.TF.Secrets {
		if !s.Closed {
			c.Failf("leak-after-factory-close", "secret#%d still live after every holder closed its session and the factory was closed", s.ID)
			break
		}
		if s.CloseCalls > 1 {
			c.Failf("released-twice", "secret#%d released %d times", s.ID, s.CloseCalls)
		}
	}
	// reference counts of every session's keys: exactly zero after tear-down, never negative (= torn down twice)
	for s := range distinctSessions {
		_, neg := c16Reach(s)
		negRefs = negRefs || neg
	}
	if negRefs {
		c.Failf("torn-down-twice", "a cached key's reference count went negative: a session was torn down more than once")
	}
	c.Outcome(strings.Join(outcome, ","))
}

var cachedKeyRefsNegative = false

// c16Reach walks an SDK object and returns the tracking secrets reachable from it and whether any
// reference counter is negative.
func c16Reach(root interface{}) (map[*doubles.TrackSecret]bool, bool) {
	reach := map[*doubles.TrackSecret]bool{}
	neg := false
	special := func(v reflect.Value) (string, bool) {
		t := v.Type()
		if t == trackSecretType {
			if !v.IsNil() {
				reach[v.Interface().(*doubles.TrackSecret)] = true
			}
			return "S", true
		}
		if t.Kind() == reflect.Ptr && t.Elem().PkgPath() == "asherahverif/doubles" {
			return "ext", true
		}
		if t.Kind() == reflect.Struct && t.PkgPath() == "asherahverif/shim/vatomic" && t.Name() == "Int64" {
			f := v.FieldByName("v")
			if f.IsValid() && f.NumField() > 0 {
				if f.Field(f.NumField()-1).Int() < 0 {
					neg = true
				}
			}
			return "a", true
		}
		if t.Kind() == reflect.Struct && (t.PkgPath() == "asherahverif/shim/vsync" || t.PkgPath() == "asherahverif/shim/vsched") {
			return "~", true
		}
		return "", false
	}
	wk := walker.New(special)
	wk.Root("r", root)
	return reach, neg
}

func c16Scenarios(thorough bool) []c16Scenario {
	var out []c16Scenario
	pols := []string{"slru", "lru"}
	if thorough {
		pols = []string{"slru", "lru", "lfu", "tinylfu"}
	}
	for _, p := range pols {
		out = append(out,
			c16Scenario{name: "G1-evict-while-held-" + p, policy: p, cap: 1,
				threads: [][]string{{"get:A", "enc", "dec", "close"}, {"get:B", "enc", "close"}}},
			c16Scenario{name: "G2-shared-" + p, policy: p, cap: 2, expectShare: true,
				threads: [][]string{{"get:A", "enc", "close"}, {"get:A", "enc", "close"}, {"get:B", "close"}}},
			c16Scenario{name: "G4-factory-close-" + p, policy: p, cap: 1,
				threads: [][]string{{"get:A", "enc", "post:used", "close"}, {"get:B", "enc", "post:used2", "close"}, {"await:used", "await:used2", "fclose"}}},
		)
	}
	out = append(out,
		c16Scenario{name: "G3-expiry-while-held-slru", policy: "slru", cap: 1,
			threads: [][]string{{"get:A", "enc", "tick:601", "dec", "close"}, {"get:A", "enc", "close"}}},
		c16Scenario{name: "G2b-churn-slru", policy: "slru", cap: 1,
			threads: [][]string{{"get:A", "enc", "close"}, {"get:A", "enc", "close"}, {"get:B", "close"}}},
		// no eviction policy named: the session cache's own default
		c16Scenario{name: "G1-evict-while-held-default-policy", policy: "", cap: 1,
			threads: [][]string{{"get:A", "enc", "dec", "close"}, {"get:B", "enc", "close"}}},
	)
	if thorough {
		out = append(out,
			c16Scenario{name: "G5-reget-slru", policy: "slru", cap: 1,
				threads: [][]string{{"get:A", "enc", "close", "get:A", "enc", "close"}, {"get:B", "enc", "close"}}},
			c16Scenario{name: "G3-expiry-while-held-lru", policy: "lru", cap: 2,
				threads: [][]string{{"get:A", "enc", "tick:601", "dec", "close"}, {"get:A", "enc", "close"}, {"get:B", "close"}}},
		)
	}
	return out
}

// CheckC16 explores every scenario up to the tier's preemption bound.
func CheckC16(r *Report) {
	r.Rule = "every interleaving (at the sync/atomic/channel/secret operations of the SDK, including the session cache's event goroutine and the Remove goroutines) of 2-3 goroutines getting, using and closing cached sessions over more partitions than the session cache holds, up to the preemption bound; non-trivial = complete executions in which two threads touched the same synchronisation object"
	bounds := []int{0, 1, 2}
	if r.Thorough() {
		bounds = []int{0, 1, 2, 3}
	}
	byName := map[string]c16Scenario{}
	var names []string
	for _, sc := range c16Scenarios(r.Thorough()) {
		byName[sc.name] = sc
		names = append(names, sc.name)
	}
	r.RunScenarios(names, func(r *Report, name string) {
		sc := byName[name]
		if !r.TimeLeft() {
			r.Exhaustive = false
			r.Caps = append(r.Caps, sc.name+": not started (time budget)")
			return
		}
		var last *explore.Result
		completed := -1
		t0 := time.Now()
		for _, b := range bounds {
			cfg := explore.Config{Name: "C16/" + sc.name, Preemptions: b, Deviations: 0, HBCache: true, Deadline: r.Deadline, MaxViolations: 5}
			res := explore.Explore(cfg, sc.body)
			last = res
			if res.Exhaustive {
				completed = b
			}
			if len(res.Violations) > 0 || !res.Exhaustive || !r.TimeLeft() {
				break
			}
		}
		r.AddExplore(last, fmt.Sprintf("preemption bound completed=%d", completed), time.Since(t0).Seconds())
	})
}
