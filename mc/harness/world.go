// Package harness contains the drivers and oracles, one file per property.
package harness

import (
	"bytes"
	"context"
	"fmt"
	"time"

	ae "github.com/godaddy/asherah/go/appencryption"

	"asherahverif/doubles"
	"asherahverif/shim/vsched"
)

// Virtual-time constants (seconds), see DESIGN.md section 6.
const (
	P = 60   // CreateDatePrecision
	R = 600  // RevokeCheckInterval
	E = 3600 // ExpireKeyAfter
)

var ctx = context.Background()

// World is the shared environment of one execution.
type World struct {
	MS   *doubles.SpyMetastore
	KMS  *doubles.SpyKMS
	TF   *doubles.TrackFactory
	AEAD *doubles.SpyAEAD
}

func NewWorld() *World {
	w := &World{MS: doubles.NewSpyMetastore(), KMS: doubles.NewSpyKMS(), TF: doubles.NewTrackFactory()}
	w.AEAD = doubles.NewSpyAEAD(w.TF)
	return w
}

// PolicySpec names a cache configuration.
type PolicySpec struct {
	Name        string
	NoCache     bool
	CacheSK     bool
	CacheIK     bool
	SharedIK    bool
	IKPolicy    string
	IKSize      int
	SKPolicy    string
	SKSize      int
	Sessions    bool
	SessSize    int
	SessPolicy  string
	SessDur     int // seconds
}

func (s PolicySpec) Build() *ae.CryptoPolicy {
	// built through the public option functions and defaults wherever one exists, so that they are on the verified path
	opts := []ae.PolicyOption{
		ae.WithExpireAfterDuration(E * time.Second),
		ae.WithRevokeCheckInterval(R * time.Second),
	}
	if s.NoCache {
		opts = append(opts, ae.WithNoCache())
	}
	if s.SharedIK {
		size := s.IKSize
		if size == 0 {
			size = ae.DefaultKeyCacheMaxSize
		}
		opts = append(opts, ae.WithSharedIntermediateKeyCache(size))
	}
	if s.Sessions {
		opts = append(opts, ae.WithSessionCache(), ae.WithSessionCacheMaxSize(s.SessSize), ae.WithSessionCacheDuration(time.Duration(s.SessDur)*time.Second))
	}
	p := ae.NewCryptoPolicy(opts...)
	p.CreateDatePrecision = P * time.Second
	if !s.NoCache && !(s.CacheSK && s.CacheIK) {
		// system-key-only / intermediate-key-only caching has no option function
		p.CacheSystemKeys = s.CacheSK
		p.CacheIntermediateKeys = s.CacheIK
	}
	if s.IKPolicy != "" {
		p.IntermediateKeyCacheEvictionPolicy = s.IKPolicy
		if !s.SharedIK {
			// (a shared cache got its capacity from WithSharedIntermediateKeyCache above: not overridden here)
			p.IntermediateKeyCacheMaxSize = s.IKSize
		}
	}
	if s.SKPolicy != "" {
		p.SystemKeyCacheEvictionPolicy = s.SKPolicy
		p.SystemKeyCacheMaxSize = s.SKSize
	}
	if s.Sessions {
		p.SessionCacheEvictionPolicy = s.SessPolicy
	}
	return p
}

// Specs used across checks.
var (
	SpecDefault  = PolicySpec{Name: "default", CacheSK: true, CacheIK: true}
	SpecNoCache  = PolicySpec{Name: "nocache", NoCache: true}
	SpecSKOnly   = PolicySpec{Name: "sk-only", CacheSK: true}
	SpecIKOnly   = PolicySpec{Name: "ik-only", CacheIK: true}
)

func SpecShared(policy string, size int) PolicySpec {
	return PolicySpec{Name: fmt.Sprintf("shared-%s-%d", policy, size), CacheSK: true, CacheIK: true, SharedIK: true,
		IKPolicy: policy, IKSize: size, SKPolicy: policy, SKSize: size}
}

func SpecSharedIKOnly(policy string, size int) PolicySpec {
	return PolicySpec{Name: fmt.Sprintf("sharedik-%s-%d", policy, size), CacheSK: true, CacheIK: true, SharedIK: true,
		IKPolicy: policy, IKSize: size}
}

func SpecSessions(policy string, size int) PolicySpec {
	return PolicySpec{Name: fmt.Sprintf("sessions-%s-%d", policy, size), CacheSK: true, CacheIK: true, Sessions: true,
		SessSize: size, SessPolicy: policy, SessDur: R}
}

// NewFactory builds an SDK factory over the world.
func (w *World) NewFactory(spec PolicySpec) *ae.SessionFactory {
	return ae.NewSessionFactory(&ae.Config{Service: "s", Product: "p", Policy: spec.Build()},
		w.MS, w.KMS, w.AEAD, ae.WithSecretFactory(w.TF))
}

// safe runs fn and converts a panic into an error string (re-raising the scheduler's unwind).
func safe(fn func()) (panicked string) {
	defer func() {
		if r := recover(); r != nil {
			if vsched.IsAbort(r) {
				panic(r)
			}
			panicked = fmt.Sprint(r)
		}
	}()
	fn()
	return ""
}

func cloneDRR(d *ae.DataRowRecord) *ae.DataRowRecord {
	if d == nil {
		return nil
	}
	c := &ae.DataRowRecord{Data: append([]byte(nil), d.Data...)}
	if d.Key != nil {
		k := *d.Key
		k.EncryptedKey = append([]byte(nil), d.Key.EncryptedKey...)
		if d.Key.ParentKeyMeta != nil {
			pm := *d.Key.ParentKeyMeta
			k.ParentKeyMeta = &pm
		}
		c.Key = &k
	}
	return c
}

func drrEqual(a, b *ae.DataRowRecord) bool {
	if a == nil || b == nil {
		return a == b
	}
	if !bytes.Equal(a.Data, b.Data) || (a.Key == nil) != (b.Key == nil) {
		return false
	}
	if a.Key == nil {
		return true
	}
	if a.Key.Created != b.Key.Created || a.Key.Revoked != b.Key.Revoked || a.Key.ID != b.Key.ID || !bytes.Equal(a.Key.EncryptedKey, b.Key.EncryptedKey) {
		return false
	}
	if (a.Key.ParentKeyMeta == nil) != (b.Key.ParentKeyMeta == nil) {
		return false
	}
	return a.Key.ParentKeyMeta == nil || *a.Key.ParentKeyMeta == *b.Key.ParentKeyMeta
}
