package harness

import (
	"context"
	"crypto/sha256"
	"encoding/json"
	"fmt"
	"os"
	"os/exec"
	"path/filepath"
	"sort"
	"strings"
	"time"

	"asherahverif/explore"
)

// Viol is one violation found by a check.
type Viol struct {
	Property string      `json:"property"`
	Harness  string      `json:"harness"`
	Sig      string      `json:"signature"`
	Msg      string      `json:"msg"`
	Choices  []int       `json:"choices,omitempty"`
	Ops      interface{} `json:"ops,omitempty"`
	Trace    []string    `json:"trace,omitempty"`
	Args     []string    `json:"args,omitempty"`
}

// RunInfo summarises one exploration (one harness × configuration).
type RunInfo struct {
	Name        string         `json:"name"`
	Executions  int            `json:"executions"`
	Complete    int            `json:"complete,omitempty"`
	Pruned      int            `json:"pruned,omitempty"`
	States      int            `json:"states"`
	Transitions int64          `json:"transitions"`
	Conflicting int            `json:"conflicting_executions,omitempty"`
	Outcomes    map[string]int `json:"outcomes,omitempty"`
	Bound       string         `json:"bound,omitempty"`
	Exhaustive  bool           `json:"exhaustive"`
	Cap         string         `json:"cap,omitempty"`
	Violations  int            `json:"violations"`
	Extra       map[string]int `json:"counters,omitempty"`
	WallS       float64        `json:"wall_s"`
}

// Report accumulates what a check covered; it becomes /verif/evidence/<id>.json.
type Report struct {
	Property           string
	Tier               string
	Level              string
	Seed               int64
	Rule               string
	Runs               []RunInfo
	Samples            []interface{}
	Evaluations        int
	DistinctNontrivial int
	States             int
	Transitions        int64
	TracesValidated    int
	Exhaustive         bool
	Caps               []string
	Assumptions        []string
	Viols              []Viol
	Vacuous            []string
	Notes              []string
	Counters           map[string]int
	start              time.Time
	Deadline           time.Time
	MachineryError     string
	// CrashIsViolation: a scenario child process that dies (SIGSEGV, fatal error) is a violation of the
	// property ("never crashes the process"), not a machinery error.
	CrashIsViolation bool
}

func NewReport(prop, tier, level string, seed int64) *Report {
	return &Report{Property: prop, Tier: tier, Level: level, Seed: seed, Exhaustive: true, start: time.Now(), Counters: map[string]int{},
		Caps: []string{}, Vacuous: []string{}, Notes: []string{},
		Assumptions: []string{
			"shims model Go sync/atomic/channel semantics under sequential consistency; RWMutex writer preference is not modelled",
			"all inter-goroutine communication of the instrumented packages goes through instrumented operations (validated separately by free-running -race passes, not by this run)",
			"doubles (metastore, KMS, secret factory) answer within the documented interface contracts",
			"bounded: see coverage.runs[*].bound / rule",
		}}
}

func (r *Report) Thorough() bool { return r.Tier == "thorough" }

// AddExplore folds an explore.Result in.
func (r *Report) AddExplore(res *explore.Result, bound string, wall float64) {
	ri := RunInfo{Name: res.Name, Executions: res.Executions, Complete: res.Complete, Pruned: res.Pruned, States: res.States,
		Transitions: res.Points, Conflicting: res.Conflicting, Outcomes: res.Outcomes, Bound: bound, Exhaustive: res.Exhaustive,
		Cap: res.CapHit, Violations: len(res.Violations), WallS: wall}
	r.Runs = append(r.Runs, ri)
	r.Evaluations += res.Executions
	r.TracesValidated += res.Executions
	r.DistinctNontrivial += res.Conflicting
	r.States += res.States
	r.Transitions += res.Points
	if !res.Exhaustive {
		r.Exhaustive = false
		r.Caps = append(r.Caps, res.Name+": "+res.CapHit)
	}
	if res.Nondeterminism != "" {
		r.MachineryError = "NONDETERMINISM " + res.Name + ": " + res.Nondeterminism
	}
	for _, v := range res.Violations {
		r.Viols = append(r.Viols, Viol{Property: r.Property, Harness: res.Name, Sig: v.Sig + "@" + res.Name, Msg: v.Msg, Choices: v.Choices, Trace: v.Trace})
	}
	if len(r.Samples) < 4 {
		for _, t := range res.SampleTraces {
			r.Samples = append(r.Samples, map[string]interface{}{"harness": res.Name, "trace": t})
			break
		}
	}
	if res.Executions > 3 && len(res.Outcomes) <= 1 && res.Conflicting == 0 {
		r.Vacuous = append(r.Vacuous, "VACUOUS? "+res.Name+": one outcome and no conflicting execution")
	}
}

// Known findings file.
type KnownFinding struct {
	Property  string `json:"property"`
	Status    string `json:"status"` // known | fixed
	Signature string `json:"signature"`
	What      string `json:"what"`
	Commit    string `json:"commit,omitempty"`
}

func loadKnown(path string) []KnownFinding {
	b, err := os.ReadFile(path)
	if err != nil {
		return nil
	}
	var k []KnownFinding
	if err := json.Unmarshal(b, &k); err != nil {
		fmt.Fprintf(os.Stderr, "known_findings.json: %v\n", err)
		os.Exit(2)
	}
	return k
}

// Finish prints the verdict lines, writes evidence and replay files, and returns the exit code.
func (r *Report) Finish(verifDir string) int {
	known := loadKnown(filepath.Join(verifDir, "known_findings.json"))
	wall := time.Since(r.start).Seconds()
	exit := 0
	knownHit := map[string]int{}
	var newViols []Viol
	for _, v := range r.Viols {
		matched := false
		for _, k := range known {
			if k.Property == r.Property && k.Status == "known" && k.Signature != "" && strings.HasPrefix(v.Sig, k.Signature) {
				knownHit[k.Signature+"\x00"+k.What]++
				matched = true
				break
			}
		}
		if !matched {
			newViols = append(newViols, v)
		}
	}
	var kl []string
	for k := range knownHit {
		kl = append(kl, k)
	}
	sort.Strings(kl)
	for _, k := range kl {
		parts := strings.SplitN(k, "\x00", 2)
		fmt.Printf("KNOWN-FINDING: property=%s %s [signature %s, %d occurrences]\n", r.Property, parts[1], parts[0], knownHit[k])
	}
	os.MkdirAll(filepath.Join(verifDir, "replays"), 0o755)
	seenSig := map[string]bool{}
	for _, v := range newViols {
		if seenSig[v.Sig] && len(seenSig) > 0 {
			continue // one replay file per signature
		}
		seenSig[v.Sig] = true
		b, _ := json.MarshalIndent(v, "", " ")
		h := sha256.Sum256(b)
		p := filepath.Join(verifDir, "replays", fmt.Sprintf("%s-%x.json", r.Property, h[:6]))
		os.WriteFile(p, b, 0o644)
		fmt.Printf("VIOLATION property=%s replay=%s\n", r.Property, p)
		fmt.Printf("  harness=%s signature=%s\n  %s\n", v.Harness, v.Sig, firstLines(v.Msg, 6))
		exit = 1
	}
	for _, v := range r.Vacuous {
		fmt.Println(v)
	}
	if r.MachineryError != "" {
		fmt.Println("MACHINERY-ERROR:", r.MachineryError)
		if exit == 0 {
			exit = 2
		}
	}
	if len(r.Samples) == 0 {
		r.Samples = append(r.Samples, "no sample recorded")
	}
	cov := map[string]interface{}{
		"evaluations":                   r.Evaluations,
		"distinct_nontrivial":           r.DistinctNontrivial,
		"rule":                          r.Rule,
		"samples":                       r.Samples,
		"states":                        r.States,
		"transitions":                   r.Transitions,
		"traces_validated_against_impl": r.TracesValidated,
		"exhaustive":                    r.Exhaustive && len(r.Vacuous) == 0,
		"runs":                          r.Runs,
		"caps_hit":                      r.Caps,
		"vacuity_warnings":              r.Vacuous,
		"counters":                      r.Counters,
		"notes":                         r.Notes,
		"known_findings_seen":           kl,
	}
	ev := map[string]interface{}{
		"property_id": r.Property,
		"tier":        r.Tier,
		"seed":        r.Seed,
		"level":       r.Level,
		"coverage":    cov,
		"assumptions": r.Assumptions,
		"wall_s":      wall,
		"violations":  len(newViols),
	}
	os.MkdirAll(filepath.Join(verifDir, "evidence"), 0o755)
	b, _ := json.MarshalIndent(ev, "", " ")
	if err := os.WriteFile(filepath.Join(verifDir, "evidence", r.Property+".json"), b, 0o644); err != nil {
		fmt.Println("cannot write evidence:", err)
		return 2
	}
	fmt.Printf("%s %s: evaluations=%d states=%d transitions=%d distinct_nontrivial=%d exhaustive=%v violations=%d known=%d wall=%.1fs\n",
		r.Property, r.Tier, r.Evaluations, r.States, r.Transitions, r.DistinctNontrivial, r.Exhaustive, len(newViols), len(r.Viols)-len(newViols), wall)
	return exit
}

func firstLines(s string, n int) string {
	ls := strings.Split(s, "\n")
	if len(ls) > n {
		ls = ls[:n]
	}
	return strings.Join(ls, "\n  ")
}

// TimeLeft reports whether the internal deadline (if any) has not passed.
func (r *Report) TimeLeft() bool { return r.Deadline.IsZero() || time.Now().Before(r.Deadline) }

// Merge folds a child report (one scenario run in its own process) into r.
func (r *Report) Merge(c *Report) {
	r.Runs = append(r.Runs, c.Runs...)
	r.Viols = append(r.Viols, c.Viols...)
	r.Evaluations += c.Evaluations
	r.DistinctNontrivial += c.DistinctNontrivial
	r.States += c.States
	r.Transitions += c.Transitions
	r.TracesValidated += c.TracesValidated
	if !c.Exhaustive {
		r.Exhaustive = false
	}
	r.Caps = append(r.Caps, c.Caps...)
	r.Vacuous = append(r.Vacuous, c.Vacuous...)
	r.Notes = append(r.Notes, c.Notes...)
	for k, v := range c.Counters {
		r.Counters[k] += v
	}
	for _, s := range c.Samples {
		if len(r.Samples) < 6 {
			r.Samples = append(r.Samples, s)
		}
	}
	if c.MachineryError != "" && r.MachineryError == "" {
		r.MachineryError = c.MachineryError
	}
	if c.Rule != "" && r.Rule == "" {
		r.Rule = c.Rule
	}
}

// RunScenarios runs each named scenario in a child process (bounded parallelism) and merges the results.
// In a child process (VHARNESS_CHILD set) it runs just that scenario in-process.
func (r *Report) RunScenarios(names []string, run func(r *Report, name string)) {
	if child := os.Getenv("VHARNESS_CHILD"); child != "" {
		run(r, child)
		return
	}
	self, err := os.Executable()
	if err != nil || len(names) <= 1 || os.Getenv("VHARNESS_SERIAL") != "" {
		for _, n := range names {
			run(r, n)
		}
		return
	}
	par := numWorkers()
	sem := make(chan struct{}, par)
	results := make([]*Report, len(names))
	errs := make([]string, len(names))
	done := make(chan int, len(names))
	left := time.Until(r.Deadline)
	for i, n := range names {
		i, n := i, n
		go func() {
			sem <- struct{}{}
			defer func() { <-sem; done <- i }()
			tmp, _ := os.CreateTemp("", "vharness-child-*.json")
			tmp.Close()
			defer os.Remove(tmp.Name())
			args := []string{r.Property, "-tier", r.Tier, "-seed", fmt.Sprint(r.Seed), "-childout", tmp.Name()}
			if !r.Deadline.IsZero() {
				args = append(args, "-budget", fmt.Sprint(int(left.Seconds())))
			}
			// a scenario process that outlives its own budget by two minutes is stuck (e.g. a Close on real pages that
			// waits for ever): it is killed and reported instead of hanging the whole check
			cctx, cancel := context.Background(), func() {}
			if !r.Deadline.IsZero() {
				cctx, cancel = context.WithTimeout(context.Background(), left+2*time.Minute)
			}
			defer cancel()
			cmd := exec.CommandContext(cctx, self, args...)
			cmd.Env = append(os.Environ(), "VHARNESS_CHILD="+n, "GOMAXPROCS=2")
			out, err := cmd.CombinedOutput()
			if cctx.Err() != nil {
				cr := Report{Exhaustive: false, Counters: map[string]int{}}
				if r.CrashIsViolation {
					cr.Viols = append(cr.Viols, Viol{Property: r.Property, Harness: n, Sig: "process-hang@" + n,
						Msg: fmt.Sprintf("the process running scenario %s did not finish within its budget plus two minutes and was killed (an operation on real resources blocks for ever):\n%s", n, firstLines(string(out), 30))})
				} else {
					cr.Caps = append(cr.Caps, "scenario "+n+": process killed after its budget plus two minutes")
				}
				results[i] = &cr
				return
			}
			b, rerr := os.ReadFile(tmp.Name())
			var cr Report
			if rerr != nil || json.Unmarshal(b, &cr) != nil {
				if r.CrashIsViolation && err != nil {
					cr = Report{Exhaustive: false, Counters: map[string]int{}}
					cr.Viols = append(cr.Viols, Viol{Property: r.Property, Harness: n, Sig: "process-crash@" + n,
						Msg: fmt.Sprintf("the process running scenario %s died (%v):\n%s", n, err, firstLines(string(out), 30))})
					results[i] = &cr
					return
				}
				errs[i] = fmt.Sprintf("scenario %s: child failed (%v): %s", n, err, firstLines(string(out), 12))
				return
			}
			results[i] = &cr
		}()
	}
	for range names {
		<-done
	}
	for i := range names {
		if errs[i] != "" {
			r.MachineryError = errs[i]
			continue
		}
		if results[i] != nil {
			r.Merge(results[i])
		}
	}
}

// WriteChild dumps the report for the parent process.
func (r *Report) WriteChild(path string) {
	b, _ := json.Marshal(r)
	os.WriteFile(path, b, 0o644)
}
