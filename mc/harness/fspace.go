package harness

import (
	"bytes"
	"context"
	"fmt"
	aelog "github.com/godaddy/asherah/go/appencryption/pkg/log"
	"strings"
	"time"

	ae "github.com/godaddy/asherah/go/appencryption"

	"asherahverif/doubles"
	"asherahverif/explore"
	"asherahverif/ref"
	"asherahverif/shim/vclock"
	"asherahverif/shim/vsched"
)

// ---------------------------------------------------------------------------------
// Fault space F (DESIGN.md section 6, C02 / C09b / C10): one operation from a prepared
// start state with every placement of up to N non-default environment answers
// (metastore error / false duplicate / error-after-write, KMS error, AEAD error,
// secret allocation failure), each placement being an environment choice of the explorer.
// ---------------------------------------------------------------------------------

type fScenario struct {
	name string
	spec PolicySpec
	prep string // cold | warm | rotating | revokedIK | revokedSK | skOnly | stale
	op   string // enc | dec
	sfx  string // region suffix reported by the metastore ("" = plain key ids)
}

type fFaults struct{ ms, kms, aead, alloc bool }

type fWorld struct {
	w       *World
	f       *ae.SessionFactory
	s       *ae.Session
	rec     *ae.DataRowRecord
	pay     []byte
	logs    []string
	logFrom int
	argFrom [2]int // marks into AEAD.KeyArgs / KMS.EncryptInputRefs (set after set-up and after each judged operation)
}

type fLogger struct{ fw *fWorld }

func (l fLogger) Debugf(format string, v ...interface{}) {
	l.fw.logs = append(l.fw.logs, fmt.Sprintf(format, v...))
}

// logLeak is C03's log clause on the fault paths: nothing an operation logged (also while failing) contains plaintext
// key bytes or the payload.
func (fw *fWorld) logLeak(c *explore.Ctx, what string) {
	lines := fw.logs[fw.logFrom:]
	fw.logFrom = len(fw.logs)
	if len(lines) == 0 {
		return
	}
	needles := map[string][]byte{"payload": fw.pay}
	for kid, b := range fw.w.TF.Reg.KeyBytes {
		needles[fmt.Sprintf("key#%d", kid)] = b
	}
	if nn, line := scanLogLines(lines, needles); nn != "" {
		c.Failf("C03:plaintext-leak-log", "%s: plaintext bytes of %s were printed into a log line: %.120q", what, nn, line)
	}
}

func (sc fScenario) setup() *fWorld {
	fw := &fWorld{w: NewWorld()}
	fw.w.MS.Suffix = sc.sfx
	aelog.SetLogger(fLogger{fw})
	fw.f = fw.w.NewFactory(sc.spec)
	mustEnc := func(s *ae.Session, pl []byte) *ae.DataRowRecord {
		r, err := s.Encrypt(ctx, append([]byte(nil), pl...))
		if err != nil {
			panic(fmt.Sprintf("fault space set-up: %v", err))
		}
		return r
	}
	fw.s, _ = fw.f.GetSession("A")
	fw.pay = []byte("fault-space-payload")
	switch sc.prep {
	case "cold":
		if sc.op == "dec" {
			// the record comes from another process; this factory has empty caches
			of := fw.w.NewFactory(SpecDefault)
			os, _ := of.GetSession("A")
			fw.rec = mustEnc(os, fw.pay)
			os.Close()
			of.Close()
		}
	case "warm":
		fw.rec = mustEnc(fw.s, fw.pay)
	case "stale":
		fw.rec = mustEnc(fw.s, fw.pay)
		vclock.Advance((R + 1) * time.Second)
	case "rotating":
		fw.rec = mustEnc(fw.s, fw.pay)
		vclock.Advance((E + 1) * time.Second)
	case "revokedIK":
		fw.rec = mustEnc(fw.s, fw.pay)
		fw.w.MS.Revoke(ref.IntermediateKeyID("A", "s", "p", sc.sfx), fw.rec.Key.ParentKeyMeta.Created)
		vclock.Advance((R + 1) * time.Second)
	case "revokedSK":
		fw.rec = mustEnc(fw.s, fw.pay)
		fw.w.MS.Revoke(ref.SystemKeyID("s", "p", sc.sfx), fw.w.MS.Latest(ref.SystemKeyID("s", "p", sc.sfx)).Created)
		vclock.Advance((2*R + 1) * time.Second)
	case "revokedIKsameMinute":
		// the revoked key cannot be replaced yet: a new key would get the same (id, created) and the insert is a genuine duplicate
		fw.rec = mustEnc(fw.s, fw.pay)
		fw.w.MS.Revoke(ref.IntermediateKeyID("A", "s", "p", sc.sfx), fw.rec.Key.ParentKeyMeta.Created)
		fw.s.Close()
		fw.s, _ = fw.f.GetSession("A")
	case "revokedSKsameMinute":
		fw.rec = mustEnc(fw.s, fw.pay)
		fw.w.MS.Revoke(ref.SystemKeyID("s", "p", sc.sfx), fw.w.MS.Latest(ref.SystemKeyID("s", "p", sc.sfx)).Created)
		fw.s.Close()
		fw.f.Close()
		fw.f = fw.w.NewFactory(sc.spec)
		fw.s, _ = fw.f.GetSession("A")
	case "skOnly":
		sb, _ := fw.f.GetSession("B")
		mustEnc(sb, fw.pay)
		sb.Close()
	default:
		panic(sc.prep)
	}
	return fw
}

func (fw *fWorld) setFaults(on bool, ff fFaults) {
	m := 0
	if on {
		m = 1
	}
	fw.w.MS.FaultMode, fw.w.KMS.FaultMode, fw.w.AEAD.FaultMode, fw.w.TF.FaultMode = 0, 0, 0, 0
	if ff.ms {
		fw.w.MS.FaultMode = m
	}
	if ff.kms {
		fw.w.KMS.FaultMode = m
	}
	if ff.aead {
		fw.w.AEAD.FaultMode = m
	}
	if ff.alloc {
		fw.w.TF.FaultMode = m
	}
}

func tableOf(ms *doubles.SpyMetastore) ref.Table {
	t := ref.Table{}
	for id, byC := range ms.Rows {
		t[id] = map[int64]*ref.KeyRecord{}
		for c, r := range byC {
			kr := &ref.KeyRecord{Revoked: r.Rec.Revoked, Created: r.Rec.Created, Key: append([]byte(nil), r.Rec.EncryptedKey...)}
			if r.Rec.ParentKeyMeta != nil {
				kr.ParentKeyMeta = &ref.KeyMeta{KeyId: r.Rec.ParentKeyMeta.ID, Created: r.Rec.ParentKeyMeta.Created}
			}
			t[id][c] = kr
		}
	}
	return t
}

// durable checks clause (a) of C02 on a returned record against a snapshot taken right now.
func (fw *fWorld) durable(c *explore.Ctx, what string, rec *ae.DataRowRecord, pay []byte) {
	if rec == nil || rec.Key == nil || rec.Key.ParentKeyMeta == nil {
		c.Failf("C02:malformed-record", "%s returned a malformed record %+v", what, rec)
		return
	}
	t := tableOf(fw.w.MS)
	ik := t[rec.Key.ParentKeyMeta.ID][rec.Key.ParentKeyMeta.Created]
	if ik == nil {
		c.Failf("C02:ik-not-durable", "%s returned a record naming IK %s/%d which is not in the metastore at that moment (calls: %s)", what, rec.Key.ParentKeyMeta.ID, rec.Key.ParentKeyMeta.Created, fw.callTrail())
		return
	}
	if ik.ParentKeyMeta == nil || t[ik.ParentKeyMeta.KeyId][ik.ParentKeyMeta.Created] == nil {
		c.Failf("C02:sk-not-durable", "%s returned a record whose IK names a system key that is not in the metastore (calls: %s)", what, fw.callTrail())
		if ik.ParentKeyMeta != nil {
			want := ref.SystemKeyID("s", "p", fw.w.MS.Suffix)
			if ik.ParentKeyMeta.KeyId != want {
				// the intermediate key is wrapped under the service's system key but filed under another parent name
				c.Failf("C03:ik-names-wrong-parent", "%s: the stored intermediate key names %s as its parent, the service's system key is %s (calls: %s)", what, ik.ParentKeyMeta.KeyId, want, fw.callTrail())
			}
		}
		return
	}
	out, err := ref.Decrypt(t, fw.w.KMS.Unwrap, toRefRow(rec))
	if err != nil || !bytes.Equal(out, pay) {
		c.Failf("C02:fresh-process-cannot-decrypt", "%s returned a record that a fresh process holding only the metastore snapshot and the KMS cannot decrypt: %v (calls: %s)", what, err, fw.callTrail())
	}
}

func (fw *fWorld) callTrail() string {
	var sb strings.Builder
	for _, cl := range fw.w.MS.Calls {
		fmt.Fprintf(&sb, "%s(%s/%d)=%s; ", cl.Op, cl.ID, cl.Created, cl.Result)
	}
	for _, cl := range fw.w.KMS.Calls {
		fmt.Fprintf(&sb, "kms.%s=%s; ", cl.Op, cl.Result)
	}
	return sb.String()
}

func allZero(b []byte) bool {
	for _, x := range b {
		if x != 0 {
			return false
		}
	}
	return true
}

// wiped checks C10 on every retained transient buffer created at or after the marks.
func (fw *fWorld) wiped(c *explore.Ctx, what string, kmsFrom, aeadFrom, srcFrom int, payloads ...[]byte) {
	// key bytes handed to the AEAD / the KMS as arguments: the very slice must be secret memory or wiped by now
	for i, b := range fw.w.AEAD.KeyArgs[fw.argFrom[0]:] {
		if !allZero(b) && !fw.w.TF.Owns(b) {
			c.Failf("C10:key-copy-passed-to-aead-not-wiped", "%s: a %d-byte key buffer passed to the AEAD (argument %d) is a copy outside secure memory and still readable after the operation returned", what, len(b), fw.argFrom[0]+i)
			break
		}
	}
	for i, b := range fw.w.KMS.EncryptInputRefs[fw.argFrom[1]:] {
		if !allZero(b) && !fw.w.TF.Owns(b) {
			c.Failf("C10:key-copy-passed-to-kms-not-wiped", "%s: the key buffer passed to KMS.EncryptKey (call %d) is a copy outside secure memory and still readable after the operation returned", what, fw.argFrom[1]+i)
			break
		}
	}
	fw.argFrom = [2]int{len(fw.w.AEAD.KeyArgs), len(fw.w.KMS.EncryptInputRefs)}
	isPayload := func(b []byte) bool {
		for _, p := range payloads {
			if bytes.Equal(b, p) {
				return true
			}
		}
		return false
	}
	for i, b := range fw.w.KMS.Returned[kmsFrom:] {
		if !allZero(b) {
			c.Failf("C10:kms-plaintext-not-wiped", "%s: plaintext system key returned by KMS.DecryptKey (call %d) still readable after the operation returned", what, kmsFrom+i)
		}
	}
	for i, b := range fw.w.AEAD.Returned[aeadFrom:] {
		if len(b) == 0 || isPayload(b) {
			continue // the caller's decrypted payload is the result, not key material
		}
		if !allZero(b) {
			kind := "key"
			if id := fw.w.TF.KeyIDOf(b); id == 0 {
				kind = "key (never stored in a secret)"
			}
			c.Failf("C10:unwrapped-key-not-wiped", "%s: plaintext %s returned by AEAD.Decrypt (unwrap %d, %d bytes) still readable after the operation returned", what, kind, aeadFrom+i, len(b))
		}
	}
	for i, b := range fw.w.TF.NewSources[srcFrom:] {
		if !allZero(b) {
			c.Failf("C10:secret-source-not-wiped", "%s: the buffer handed to SecretFactory.New (call %d) still holds key bytes after the operation returned", what, srcFrom+i)
		}
	}
}

func (sc fScenario) body(ff fFaults) explore.Body {
	return func(c *explore.Ctx) {
		vsched.BeginQuiet()
		fw := sc.setup()
		fw.argFrom = [2]int{len(fw.w.AEAD.KeyArgs), len(fw.w.KMS.EncryptInputRefs)}
		fw.logFrom = len(fw.logs)
		vsched.EndQuiet()
		usedDRK := map[string]bool{}
		for round := 0; round < 2; round++ {
			// round 0: with fault choices; round 1: faults stopped, the next operation must succeed
			fw.setFaults(round == 0, ff)
			kmsFrom, aeadFrom, srcFrom, secFrom := len(fw.w.KMS.Returned), len(fw.w.AEAD.Returned), len(fw.w.TF.NewSources), len(fw.w.TF.Secrets)
			aeadCallsFrom := len(fw.w.AEAD.Calls)
			what := fmt.Sprintf("%s/%s round %d", sc.name, sc.op, round)
			var rec *ae.DataRowRecord
			var out []byte
			var err error
			pay := append([]byte(nil), fw.pay...)
			// the caller's context may be cancelled while any metastore / KMS call of the faulted round is in flight
			octx, cancel := context.WithCancel(ctx)
			if round == 0 && (ff.ms || ff.kms) {
				fw.w.MS.Cancel, fw.w.KMS.Cancel = cancel, cancel
				// a slow call: the clock crosses into the next creation-stamp bucket while it is in flight
				slow := func() {
					vclock.Advance(P * time.Second)
					vsched.GlobalEvent("slow-call")
				}
				fw.w.MS.Slow, fw.w.KMS.Slow = slow, slow
			}
			pan := safe(func() {
				if sc.op == "enc" {
					rec, err = fw.s.Encrypt(octx, pay)
				} else {
					out, err = fw.s.Decrypt(octx, *cloneDRR(fw.rec))
				}
			})
			fw.w.MS.Cancel, fw.w.KMS.Cancel = nil, nil
			fw.w.MS.Slow, fw.w.KMS.Slow = nil, nil
			cancel()
			fw.setFaults(false, ff)
			if pan != "" {
				c.Failf("C02:panic", "%s panicked: %s", what, pan)
				c.Failf("C09:panic", "%s panicked: %s", what, pan)
				c.Failf("C10:panic", "%s panicked: %s", what, pan)
				break
			}
			if round == 0 {
				if err != nil {
					c.Outcome("faulted-error")
				} else {
					c.Outcome("faulted-success")
				}
			}
			if err == nil {
				if sc.op == "enc" {
					fw.durable(c, what, rec, fw.pay)
				} else if !bytes.Equal(out, fw.pay) {
					c.Failf("C01:dec-wrong-bytes", "%s returned %q", what, out)
					c.Failf("C02:dec-wrong-bytes", "%s returned %q", what, out)
				}
			} else if round == 1 {
				c.Failf("C01:fails-after-faults-stopped", "%s: with all faults stopped the operation still fails (a record that was handed out must decrypt at any later time): %v (calls: %s)", what, err, fw.callTrail())
				c.Failf("C02:no-recovery", "%s: with all faults stopped the next operation still fails: %v (calls: %s)", what, err, fw.callTrail())
			}
			// C03: the envelope discipline holds on every path that hands out a record, also after faults
			if err == nil && sc.op == "enc" {
				fw.envelope(c, what, aeadCallsFrom, secFrom, usedDRK)
			}
			fw.logLeak(c, what)
			// C10: transient plaintext copies
			fw.wiped(c, what, kmsFrom, aeadFrom, srcFrom, fw.pay)
			// C09: per-call release of data keys created by this operation (row keys may stay cached)
			roles := map[int]bool{}
			for _, r := range fw.w.MS.SortedRows() {
				_ = r
			}
			t := tableOf(fw.w.MS)
			for id, byC := range t {
				for _, kr := range byC {
					var kb []byte
					if strings.HasPrefix(id, "_SK_") {
						kb, _ = fw.w.KMS.Unwrap(kr.Key)
					} else if kr.ParentKeyMeta != nil {
						if skr := t[kr.ParentKeyMeta.KeyId][kr.ParentKeyMeta.Created]; skr != nil {
							if skb, e := fw.w.KMS.Unwrap(skr.Key); e == nil {
								kb, _ = ref.Open(kr.Key, skb)
							}
						}
					}
					if kb != nil {
						roles[fw.w.TF.KeyIDOf(kb)] = true
					}
				}
			}
			for _, s := range fw.w.TF.Secrets[secFrom:] {
				if !s.Closed && !roles[s.KeyID] {
					c.Failf("C09:unsaved-key-not-released", "%s returned while secret#%d (a data key or a generated key that was never persisted) is still live (calls: %s)", what, s.ID, fw.callTrail())
				}
				if sc.spec.NoCache && !s.Closed {
					c.Failf("C09:nocache-retains"+leakClass(fw.w.MS), "%s with caching disabled returned while secret#%d is still live", what, s.ID)
				}
			}
		}
		// tear-down accounting
		vsched.BeginQuiet()
		fw.s.Close()
		fw.f.Close()
		vsched.EndQuiet()
		for _, s := range fw.w.TF.Secrets {
			if !s.Closed {
				c.Failf("C09:leak-after-close"+leakClass(fw.w.MS), "secret#%d (key %d) is still live after the session and the factory were closed (calls: %s)", s.ID, s.KeyID, fw.callTrail())
				break
			}
			if s.CloseCalls > 1 {
				c.Failf("C09:closed-twice", "secret#%d closed %d times", s.ID, s.CloseCalls)
			}
			if s.AfterClose > 0 {
				c.Failf("C09:touched-after-close", "secret#%d accessed after Close", s.ID)
			}
		}
	}
}

func fScenarios(thorough bool) []fScenario {
	var out []fScenario
	specs := []PolicySpec{SpecDefault, SpecNoCache, SpecShared("lru", 1), SpecSessions("slru", 1)}
	if thorough {
		specs = []PolicySpec{SpecDefault, SpecNoCache, SpecShared("lru", 1), SpecShared("slru", 2), SpecSKOnly, SpecIKOnly, SpecSessions("slru", 1)}
	}
	for _, sp := range specs {
		for _, prep := range []string{"cold", "warm", "rotating", "revokedIK", "revokedSK", "skOnly", "revokedIKsameMinute", "revokedSKsameMinute"} {
			out = append(out, fScenario{name: sp.Name + "/" + prep, spec: sp, prep: prep, op: "enc"})
		}
		for _, prep := range []string{"cold", "warm", "stale"} {
			out = append(out, fScenario{name: sp.Name + "/" + prep, spec: sp, prep: prep, op: "dec"})
		}
	}
	// region-suffixed key ids (a metastore that reports a region suffix)
	sfxSpecs := []PolicySpec{SpecDefault}
	if thorough {
		sfxSpecs = []PolicySpec{SpecDefault, SpecNoCache, SpecShared("lru", 1)}
	}
	for _, sp := range sfxSpecs {
		for _, prep := range []string{"cold", "rotating", "revokedSK", "skOnly"} {
			out = append(out, fScenario{name: sp.Name + "+suffix/" + prep, spec: sp, prep: prep, op: "enc", sfx: "us-west-2"})
		}
		for _, prep := range []string{"cold", "stale"} {
			out = append(out, fScenario{name: sp.Name + "+suffix/" + prep, spec: sp, prep: prep, op: "dec", sfx: "us-west-2"})
		}
	}
	return out
}

// CheckF runs the fault space and reports the failures that belong to prop.
func CheckF(prop string, ff fFaults) func(r *Report) {
	return func(r *Report) {
		r.Level = "fault_enumeration"
		r.Rule = "one encrypt (or decrypt) from each prepared start state (cold, warm, rotating, revoked IK, revoked SK, SK-only, stale) with every placement of up to D non-default answers over the metastore (error / false duplicate / error-after-write / caller's context cancelled during the call / slow call during which the clock crosses a creation-stamp bucket), KMS (error / context cancelled / slow), AEAD and secret-allocator calls it makes, followed by the same operation with faults stopped and a full close; non-trivial = executions in which at least one fault was injected"
		for _, sc := range fScenarios(r.Thorough()) {
			if prop == "C02" && sc.op != "enc" {
				continue
			}
			if !r.TimeLeft() {
				r.Exhaustive = false
				r.Caps = append(r.Caps, "time budget")
				return
			}
			dev := 2
			if r.Thorough() {
				dev = 4
			}
			t0 := time.Now()
			cfg := explore.Config{Name: "F/" + sc.name + "/" + sc.op, Preemptions: 0, Deviations: dev, Deadline: r.Deadline, MaxViolations: 200,
				SigFilter: func(sig string) bool { return strings.HasPrefix(sig, prop+":") }}
			res := explore.Explore(cfg, sc.body(ff))
			// keep only this property's failures
			var keep []explore.Violation
			seen := map[string]bool{}
			for _, v := range res.Violations {
				if !strings.HasPrefix(v.Sig, prop+":") && v.Sig != "panic" && v.Sig != "deadlock" {
					continue
				}
				if seen[v.Sig] {
					continue
				}
				seen[v.Sig] = true
				keep = append(keep, v)
			}
			res.Violations = keep
			r.AddExplore(res, fmt.Sprintf("deviations <= %d, all placements", dev), time.Since(t0).Seconds())
			// non-trivial = executions with >= 1 injected fault
			r.DistinctNontrivial += res.Outcomes["faulted-error"]
		}
	}
}

// leakClass recognises the one call pattern behind the recorded C09 finding: an intermediate
// key insert that did not succeed, followed by a reload of the latest IK row whose parent SK
// is not the newest SK row (the SDK then re-resolves that parent SK and keeps the reference).
func leakClass(ms *doubles.SpyMetastore) string {
	failed := false
	for _, cl := range ms.Calls {
		switch {
		case cl.Op == "Store" && strings.HasPrefix(cl.ID, "_IK_") && cl.Result != "stored":
			failed = true
		case cl.Op == "LoadLatest" && strings.HasPrefix(cl.ID, "_IK_") && cl.Result == "found" && failed:
			row := ms.Rows[cl.ID][cl.Created]
			if row == nil || row.Rec.ParentKeyMeta == nil {
				continue
			}
			if latest := ms.Latest(row.Rec.ParentKeyMeta.ID); latest != nil && latest.Created != row.Rec.ParentKeyMeta.Created {
				return ":parent-sk-reloaded-after-lost-ik-insert"
			}
		}
	}
	return ""
}

// envelope is the C03 monitor for one successful encrypt of the fault space: the payload was encrypted exactly once,
// under a key that the secret factory generated with CreateRandom during this very call (never a key that bypassed the
// secret factory, never zero bytes, never the key of an earlier write), and that key is released on return.
func (fw *fWorld) envelope(c *explore.Ctx, what string, aeadFrom, secFrom int, used map[string]bool) {
	n := 0
	for _, cl := range fw.w.AEAD.Calls[aeadFrom:] {
		if cl.Op != "Encrypt" || cl.Err || !bytes.Equal(cl.Data, fw.pay) {
			continue
		}
		n++
		if cl.KeyZero {
			c.Failf("C03:payload-under-zero-key", "%s encrypted the payload under an all-zero key (calls: %s)", what, fw.callTrail())
		}
		fresh := false
		for _, s := range fw.w.TF.Secrets[secFrom:] {
			if s.KeyID == cl.KeyID && cl.KeyID != 0 && s.Kind == "random" {
				fresh = true
				if !s.Closed {
					c.Failf("C03:drk-not-released", "%s returned while its data key is still live", what)
				}
			}
		}
		if !fresh {
			c.Failf("C03:drk-not-from-secret-factory", "%s encrypted the payload under a key that the secret factory did not generate during this call (key id %d; calls: %s)", what, cl.KeyID, fw.callTrail())
		}
		if used[cl.KeyHash] {
			c.Failf("C03:drk-reused", "%s encrypted the payload under the data key of an earlier write", what)
		}
		used[cl.KeyHash] = true
	}
	if n != 1 {
		c.Failf("C03:payload-encryptions", "%s performed %d payload encryptions, want exactly 1", what, n)
	}
}
