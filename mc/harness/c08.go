package harness

import (
	"bytes"
	"fmt"
	"strings"
	"time"

	ae "github.com/godaddy/asherah/go/appencryption"

	"asherahverif/explore"
	"asherahverif/shim/vclock"
	"asherahverif/shim/vsched"
)

// opResult is what one thread observed for one operation.
type opResult struct {
	op   string
	err  error
	pan  string
	ok   bool
	done bool
}

// c08Scenario describes one schedule harness: a factory configuration, a quiet set-up
// and the operations of each thread.
type c08Scenario struct {
	name    string
	spec    PolicySpec
	parts   []string   // partitions with one pre-made record each
	threads [][]string // per thread: ops "dec:A", "enc:B", "sess:C" (open, enc, dec, close a fresh session)
	warm    []string   // ops run in the quiet set-up after the records exist (same syntax)
	tick    int        // seconds advanced after warm-up (e.g. R+1 to make entries stale)
	twoSK   bool       // create the first record, then expire the SK, so that two SK generations exist
	maxBound   int     // 0 = the tier's bound; otherwise the highest preemption bound explored for this scenario
	foreign    []string // partitions whose record is produced by another factory in the set-up; no session of the factory under test is opened for them
	evictFirst bool    // the records of the last partitions are produced by another factory, so that the cache under test never held them
}

type c08State struct {
	w       *World
	f       *ae.SessionFactory
	sess    map[string]*ae.Session
	recs    map[string]*ae.DataRowRecord
	payload map[string][]byte
}

func payloadFor(p string) []byte { return []byte("payload-for-" + p + "-0123456789") }

func (sc *c08Scenario) setup() *c08State {
	st := &c08State{w: NewWorld(), sess: map[string]*ae.Session{}, recs: map[string]*ae.DataRowRecord{}, payload: map[string][]byte{}}
	st.f = st.w.NewFactory(sc.spec)
	other := st.w.NewFactory(SpecDefault)
	for i, p := range sc.parts {
		s, err := st.f.GetSession(p)
		if err != nil {
			panic(err)
		}
		st.sess[p] = s
		st.payload[p] = payloadFor(p)
		enc := s
		if sc.evictFirst && i >= 100 {
			enc, _ = other.GetSession(p)
		}
		r, err := enc.Encrypt(ctx, append([]byte(nil), st.payload[p]...))
		if enc != s {
			enc.Close()
		}
		if err != nil {
			panic(fmt.Sprintf("setup encrypt %s: %v", p, err))
		}
		st.recs[p] = r
		if sc.twoSK && i == 0 {
			vclock.Advance((E + 1) * time.Second)
		}
	}
	for _, p := range sc.foreign {
		os, _ := other.GetSession(p)
		st.payload[p] = payloadFor(p)
		r, err := os.Encrypt(ctx, append([]byte(nil), st.payload[p]...))
		if err != nil {
			panic(err)
		}
		st.recs[p] = r
		os.Close()
	}
	other.Close()
	for _, op := range sc.warm {
		if res := st.do(op); res.err != nil || res.pan != "" {
			panic(fmt.Sprintf("setup warm %s: %v %s", op, res.err, res.pan))
		}
	}
	if sc.tick > 0 {
		vclock.Advance(time.Duration(sc.tick) * time.Second)
	}
	return st
}

// do performs one operation and checks its functional result.
func (st *c08State) do(op string) (res opResult) {
	res.op = op
	kind, part, _ := strings.Cut(op, ":")
	res.pan = safe(func() {
		switch kind {
		case "dec":
			out, err := st.sess[part].Decrypt(ctx, *st.recs[part])
			res.err = err
			res.ok = err == nil && bytes.Equal(out, st.payload[part])
		case "enc":
			pl := []byte("fresh-" + part)
			r, err := st.sess[part].Encrypt(ctx, append([]byte(nil), pl...))
			res.err = err
			if err == nil {
				out, err2 := st.sess[part].Decrypt(ctx, *r)
				res.err = err2
				res.ok = err2 == nil && bytes.Equal(out, pl)
			}
		case "bad": // decrypt a tampered copy of the partition's record: must fail, and must not hurt anybody else
			r := cloneDRR(st.recs[part])
			r.Data[len(r.Data)/2] ^= 0x40
			_, err := st.sess[part].Decrypt(ctx, *r)
			res.ok = err != nil
			if err == nil {
				res.err = fmt.Errorf("a tampered record decrypted without error")
			}
		case "hold": // open a session of the factory, decrypt the partition's existing record, close
			s, err := st.f.GetSession(part)
			if err != nil {
				res.err = err
				return
			}
			out, err := s.Decrypt(ctx, *st.recs[part])
			res.err = err
			res.ok = err == nil && bytes.Equal(out, st.payload[part])
			s.Close()
		case "sess":
			s, err := st.f.GetSession(part)
			if err != nil {
				res.err = err
				return
			}
			pl := []byte("sess-" + part)
			r, err := s.Encrypt(ctx, append([]byte(nil), pl...))
			if err == nil {
				var out []byte
				out, err = s.Decrypt(ctx, *r)
				res.ok = err == nil && bytes.Equal(out, pl)
			}
			res.err = err
			s.Close()
		default:
			panic("bad op " + op)
		}
	})
	res.done = true
	return
}

func (sc *c08Scenario) body(c *explore.Ctx) {
	vsched.BeginQuiet()
	st := sc.setup()
	vsched.EndQuiet()
	results := make([][]opResult, len(sc.threads))
	for ti, ops := range sc.threads {
		ti, ops := ti, ops
		results[ti] = make([]opResult, len(ops))
		vsched.GoNamed(fmt.Sprintf("user%d", ti), func() {
			for oi, op := range ops {
				results[ti][oi] = st.do(op)
			}
		})
	}
	vsched.Quiesce()
	var outcome []string
	for ti, rs := range results {
		for oi, r := range rs {
			switch {
			case !r.done:
				c.Failf("blocked", "thread %d op %s never completed; blocked: %v", ti, sc.threads[ti][oi], vsched.Blocked())
				outcome = append(outcome, "blocked")
			case r.pan != "":
				c.Failf("panic:"+r.op, "thread %d op %s panicked: %s", ti, r.op, r.pan)
				outcome = append(outcome, "panic")
			case r.err != nil:
				c.Failf("error:"+kindOf(r.op)+":"+errClass(r.err), "thread %d op %s failed although it does not race with the close of its own session/factory: %v", ti, r.op, r.err)
				outcome = append(outcome, "err")
			case !r.ok:
				c.Failf("wrong-bytes:"+r.op, "thread %d op %s returned wrong bytes", ti, r.op)
				outcome = append(outcome, "wrong")
			default:
				outcome = append(outcome, "ok")
			}
		}
	}
	if n := len(st.w.TF.UseAfterClose); n > 0 {
		c.Failf("use-after-destroy", "%d accesses to a destroyed secret: %v", n, st.w.TF.UseAfterClose)
	}
	// tear down and account (ties to C09): everything must be released exactly once.
	vsched.BeginQuiet()
	for _, p := range sc.parts {
		st.sess[p].Close()
	}
	st.f.Close()
	vsched.EndQuiet()
	if !c.Failed() {
		for _, s := range st.w.TF.Secrets {
			if !s.Closed {
				c.Failf("leak-after-close", "secret#%d (key %d, %s) still live after all sessions and the factory were closed", s.ID, s.KeyID, s.Kind)
				break
			}
		}
	}
	evs := 0
	for _, cl := range st.w.MS.Calls {
		_ = cl
		evs++
	}
	c.Outcome(strings.Join(outcome, ","))
}

func kindOf(op string) string {
	k, _, _ := strings.Cut(op, ":")
	return k
}

func errClass(err error) string {
	s := err.Error()
	switch {
	case strings.Contains(s, "already been destroyed"):
		return "destroyed"
	case strings.Contains(s, "injected"):
		return "injected"
	}
	if len(s) > 40 {
		s = s[:40]
	}
	return s
}

func c08Scenarios(thorough bool) []c08Scenario {
	var out []c08Scenario
	pols := []string{"lru", "lfu", "slru", "tinylfu"}
	for _, pol := range pols {
		out = append(out, c08Scenario{name: "H1-" + pol, spec: SpecShared(pol, 1), parts: []string{"A", "B"},
			threads: [][]string{{"dec:A"}, {"dec:B"}}})
	}
	out = append(out,
		c08Scenario{name: "H2-encdec-lru", spec: SpecShared("lru", 1), parts: []string{"A", "B"},
			threads: [][]string{{"enc:A"}, {"dec:B"}}},
		c08Scenario{name: "H2-encenc-lru", spec: SpecShared("lru", 1), parts: []string{"A", "B"},
			threads: [][]string{{"enc:A"}, {"enc:B"}}},
		c08Scenario{name: "H3-twoSK-lru", spec: SpecShared("lru", 1), parts: []string{"A", "B"}, twoSK: true,
			threads: [][]string{{"dec:A"}, {"dec:B"}}},
		c08Scenario{name: "H4-stale-lru", spec: SpecShared("lru", 2), parts: []string{"A", "B"}, warm: []string{"dec:A", "dec:B"}, tick: R + 1,
			threads: [][]string{{"dec:A"}, {"dec:A"}, {"dec:B"}}},
		c08Scenario{name: "H6-session-churn", spec: SpecDefault, parts: []string{"A"},
			threads: [][]string{{"enc:A", "dec:A"}, {"sess:A"}, {"sess:B"}}},
		// policy corners: caching switched off together with a shared intermediate-key cache; system keys only
		c08Scenario{name: "H6-session-churn-nocache+sharedik", spec: PolicySpec{Name: "nocache+shared-ik", NoCache: true, SharedIK: true}, parts: []string{"A"},
			threads: [][]string{{"enc:A", "dec:A"}, {"sess:A"}, {"sess:B"}}},
		c08Scenario{name: "H6-session-churn-skonly+sharedik", spec: PolicySpec{Name: "sk-only+shared-ik", CacheSK: true, SharedIK: true}, parts: []string{"A"},
			threads: [][]string{{"enc:A", "dec:A"}, {"sess:A"}, {"sess:B"}}},
		c08Scenario{name: "H6-session-cache", spec: SpecSessions("slru", 1), parts: []string{"A"},
			threads: [][]string{{"dec:A"}, {"sess:B"}}},
		// a failed decrypt (tampered record) next to users of the same cached key: the failure must not release the key twice
		c08Scenario{name: "H7-failed-decrypt-shared-lru", spec: SpecShared("lru", 2), parts: []string{"A", "B"},
			threads: [][]string{{"bad:A", "dec:A"}, {"dec:A", "dec:B"}}},
		c08Scenario{name: "H7-failed-decrypt-default", spec: SpecDefault, parts: []string{"A"},
			threads: [][]string{{"bad:A", "bad:A", "dec:A"}, {"enc:A"}}},
		// rotation under users of the old generation: the cached latest key has expired, one thread's encrypt replaces it by
		// a new generation while the other thread decrypts records written under the old one (which stays cached)
		c08Scenario{name: "H8-rotation-under-old-generation-default", spec: SpecDefault, parts: []string{"A"}, tick: E + 1,
			threads: [][]string{{"dec:A", "dec:A"}, {"enc:A", "dec:A"}}},
		c08Scenario{name: "H8-rotation-under-old-generation-shared-lru", spec: SpecShared("lru", 2), parts: []string{"A"}, tick: E + 1,
			threads: [][]string{{"dec:A", "dec:A"}, {"enc:A", "dec:A"}}},
		// two holders of one cached session while it is evicted: the close of the other holder must not tear it down
		c08Scenario{name: "H6-session-cache-2holders", spec: SpecSessions("slru", 1), parts: []string{"A"},
			foreign: []string{"B"}, threads: [][]string{{"dec:A", "dec:A"}, {"hold:A"}, {"hold:B"}}},
	)
	if thorough {
		out = append(out,
			c08Scenario{name: "H1-3threads-cap2-lru", spec: SpecShared("lru", 2), parts: []string{"A", "B", "C"},
				threads: [][]string{{"dec:A"}, {"dec:B"}, {"dec:C"}}},
			c08Scenario{name: "H1-2ops-lru", spec: SpecShared("lru", 1), parts: []string{"A", "B"},
				threads: [][]string{{"dec:A", "dec:A"}, {"dec:B", "dec:B"}}},
			c08Scenario{name: "H2-encdec-slru", spec: SpecShared("slru", 1), parts: []string{"A", "B"},
				threads: [][]string{{"enc:A", "dec:A"}, {"dec:B"}}},
		)
		// H5: capacity >= 100 switches the key caches to ASYNCHRONOUS eviction (callbacks run on the cache's event
		// goroutine): the shared IK cache is filled to its capacity by 100 partitions, then a hit on the oldest
		// entry races with two misses that evict.
		var many []string
		for i := 0; i < 100; i++ {
			many = append(many, fmt.Sprintf("P%03d", i))
		}
		out = append(out,
			c08Scenario{name: "H5-async-lru-100", spec: SpecSharedIKOnly("lru", 100), parts: append(append([]string{}, many...), "Q", "R"), evictFirst: true, maxBound: 2,
				threads: [][]string{{"dec:P000", "dec:P001"}, {"dec:Q"}, {"dec:R"}}},
			c08Scenario{name: "H5-async-slru-100", spec: SpecSharedIKOnly("slru", 100), parts: append(append([]string{}, many...), "Q"), evictFirst: true, maxBound: 2,
				threads: [][]string{{"dec:P000", "enc:P000"}, {"dec:Q"}}},
		)
	}
	return out
}

// CheckC08 explores every scenario up to the tier's preemption bound.
func CheckC08(r *Report) {
	r.Rule = "every interleaving (at sync/atomic/channel/secret/metastore/KMS operations of the instrumented SDK) of the scenario's threads up to the preemption bound; non-trivial = complete execution in which two threads touched the same synchronisation object"
	bounds := []int{0, 1, 2}
	if r.Thorough() {
		bounds = []int{0, 1, 2, 3}
	}
	byName := map[string]c08Scenario{}
	var names []string
	for _, sc := range c08Scenarios(r.Thorough()) {
		byName[sc.name] = sc
		names = append(names, sc.name)
	}
	r.RunScenarios(names, func(r *Report, name string) {
		sc := byName[name]
		var last *explore.Result
		completed := -1
		t0 := time.Now()
		for _, b := range bounds {
			if sc.maxBound > 0 && b > sc.maxBound {
				break
			}
			cfg := explore.Config{Name: "C08/" + sc.name, Preemptions: b, Deviations: 0, HBCache: true, Deadline: r.Deadline, MaxViolations: 5}
			res := explore.Explore(cfg, sc.body)
			last = res
			if res.Exhaustive {
				completed = b
			}
			if len(res.Violations) > 0 || !res.Exhaustive || !r.TimeLeft() {
				break
			}
		}
		r.AddExplore(last, fmt.Sprintf("preemption bound completed=%d", completed), time.Since(t0).Seconds())
	})
}

// ---------------------------------------------------------------------------------
// C20 (schedules): the "at most one unwrap / one re-read per interval" clauses under
// concurrency: goroutines of one factory hit a stale key together; every interleaving up
// to the preemption bound; the external calls of the concurrent phase are counted.
// ---------------------------------------------------------------------------------

func (sc *c08Scenario) c20Body(c *explore.Ctx) {
	vsched.BeginQuiet()
	st := sc.setup()
	vsched.EndQuiet()
	msFrom, kmsFrom := len(st.w.MS.Calls), len(st.w.KMS.Calls)
	results := make([][]opResult, len(sc.threads))
	for ti, ops := range sc.threads {
		ti, ops := ti, ops
		results[ti] = make([]opResult, len(ops))
		vsched.GoNamed(fmt.Sprintf("user%d", ti), func() {
			for oi, op := range ops {
				results[ti][oi] = st.do(op)
			}
		})
	}
	vsched.Quiesce()
	for ti, rs := range results {
		for _, r := range rs {
			if !r.done || r.pan != "" || r.err != nil || !r.ok {
				c.Failf("op-failed", "thread %d op %s did not succeed: done=%v err=%v panic=%s", ti, r.op, r.done, r.err, r.pan)
			}
		}
	}
	unwraps := map[string]int{}
	for _, cl := range st.w.KMS.Calls[kmsFrom:] {
		if cl.Op == "DecryptKey" && cl.Result == "ok" {
			unwraps[cl.ID]++
		}
	}
	for id, n := range unwraps {
		if n > 1 {
			c.Failf("sk-unwrapped-concurrently", "the KMS was asked %d times to unwrap the same system key (%s) within one revoke-check interval by one factory", n, id)
		}
	}
	reads := map[string]int{}
	for _, cl := range st.w.MS.Calls[msFrom:] {
		if cl.Op == "Load" || cl.Op == "LoadLatest" {
			reads[fmt.Sprintf("%s/%d", cl.ID, cl.Created)]++
		}
	}
	for k, n := range reads {
		if n > 1 && (strings.HasPrefix(k, "_SK_") || sc.spec.SharedIK) {
			c.Failf("record-reread-concurrently", "key record %s was read %d times in one interval by one factory (shared cache)", k, n)
		}
	}
	c.Outcome(fmt.Sprintf("unwraps=%d reads=%d", len(st.w.KMS.Calls)-kmsFrom, len(st.w.MS.Calls)-msFrom))
	vsched.BeginQuiet()
	for _, p := range sc.parts {
		st.sess[p].Close()
	}
	st.f.Close()
	vsched.EndQuiet()
}

func c20SchedScenarios() []c08Scenario {
	return []c08Scenario{
		{name: "stale-sk-two-partitions", spec: SpecDefault, parts: []string{"A", "B"}, warm: []string{"dec:A", "dec:B"}, tick: R + 1,
			threads: [][]string{{"dec:A"}, {"dec:B"}}},
		{name: "stale-ik-shared-cache", spec: SpecShared("lru", 4), parts: []string{"A"}, warm: []string{"dec:A"}, tick: R + 1,
			threads: [][]string{{"dec:A"}, {"dec:A"}}},
		{name: "stale-sk-enc-and-dec", spec: SpecDefault, parts: []string{"A", "B"}, warm: []string{"dec:A", "dec:B"}, tick: R + 1,
			threads: [][]string{{"enc:A"}, {"dec:B"}}},
	}
}

func c20Sched(r *Report) {
	bound := 2
	if r.Thorough() {
		bound = 3
	}
	for _, sc := range c20SchedScenarios() {
		sc := sc
		t0 := time.Now()
		cfg := explore.Config{Name: "C20s/" + sc.name, Preemptions: bound, Deviations: 0, HBCache: true, Deadline: r.Deadline, MaxViolations: 5}
		res := explore.Explore(cfg, sc.c20Body)
		r.AddExplore(res, fmt.Sprintf("preemption bound %d", bound), time.Since(t0).Seconds())
	}
}
