package harness

import (
	"bytes"
	"context"
	"fmt"
	"io"
	stdlog "log"
	"sort"
	"strings"
	"time"

	pb "github.com/godaddy/asherah/server/go/api"
	"github.com/godaddy/asherah/server/go/pkg/server"
	"google.golang.org/grpc/metadata"

	"asherahverif/explore"
	"asherahverif/shim/vsched"
)

// ---------------------------------------------------------------------------------
// C19: every request sequence up to a bounded length over the request alphabet, driven
// through an in-memory stream into the real AppEncryption.Session, against a reference
// protocol automaton.
// ---------------------------------------------------------------------------------

type memStream struct {
	in   []*pb.SessionRequest
	pos  int
	out  []*pb.SessionResponse
	nils int
}

func (s *memStream) Send(m *pb.SessionResponse) error {
	if m == nil {
		s.nils++
		m = &pb.SessionResponse{} // what gRPC puts on the wire for a nil message
	}
	s.out = append(s.out, m)
	return nil
}

func (s *memStream) Recv() (*pb.SessionRequest, error) {
	if s.pos >= len(s.in) {
		return nil, io.EOF
	}
	m := s.in[s.pos]
	s.pos++
	return m, nil
}

func (s *memStream) SetHeader(metadata.MD) error  { return nil }
func (s *memStream) SendHeader(metadata.MD) error { return nil }
func (s *memStream) SetTrailer(metadata.MD)       {}
func (s *memStream) Context() context.Context     { return context.Background() }
func (s *memStream) SendMsg(m interface{}) error  { return nil }
func (s *memStream) RecvMsg(m interface{}) error  { return io.EOF }

type c19World struct {
	app     *server.AppEncryption
	own     *pb.DataRowRecord // record of partition p1 holding ownData
	foreign *pb.DataRowRecord // record of partition p2
	ownData []byte
}

func init() { stdlog.SetOutput(io.Discard) }

// c19SessionCaching selects the sidecar configuration of the worlds built next (session caching on: capacity 1, so
// that the two partitions of the set-up evict each other).
var c19SessionCaching bool

func newC19App() *server.AppEncryption {
	o := &server.Options{ServiceName: "svc", ProductID: "prod", ExpireAfter: time.Hour, CheckInterval: time.Hour,
		Metastore: "memory", KMS: "static"}
	if c19SessionCaching {
		o.EnableSessionCaching = true
		o.SessionCacheMaxSize = 1
		o.SessionCacheDuration = time.Hour
	}
	return server.NewAppEncryption(o)
}

func reqGet(id string) *pb.SessionRequest {
	return &pb.SessionRequest{Request: &pb.SessionRequest_GetSession{GetSession: &pb.GetSession{PartitionId: id}}}
}

func reqEnc(data []byte) *pb.SessionRequest {
	return &pb.SessionRequest{Request: &pb.SessionRequest_Encrypt{Encrypt: &pb.Encrypt{Data: data}}}
}

func reqDec(d *pb.DataRowRecord) *pb.SessionRequest {
	return &pb.SessionRequest{Request: &pb.SessionRequest_Decrypt{Decrypt: &pb.Decrypt{DataRowRecord: d}}}
}

func cloneRec(d *pb.DataRowRecord) *pb.DataRowRecord {
	if d == nil {
		return nil
	}
	c := &pb.DataRowRecord{Data: append([]byte(nil), d.Data...)}
	if d.Key != nil {
		c.Key = &pb.EnvelopeKeyRecord{Created: d.Key.Created, Key: append([]byte(nil), d.Key.Key...)}
		if d.Key.ParentKeyMeta != nil {
			c.Key.ParentKeyMeta = &pb.KeyMeta{KeyId: d.Key.ParentKeyMeta.KeyId, Created: d.Key.ParentKeyMeta.Created}
		}
	}
	return c
}

// runStream drives one stream to completion; a panic is caught and reported.
func (w *c19World) runStream(reqs []*pb.SessionRequest) (st *memStream, err error, pan string) {
	st = &memStream{in: reqs}
	pan = safe(func() { err = w.app.Session(st) })
	return
}

func newC19World() (*c19World, error) {
	w := &c19World{app: newC19App(), ownData: []byte("own-data-0123456789")}
	mk := func(part string, data []byte) (*pb.DataRowRecord, error) {
		st, err, pan := w.runStream([]*pb.SessionRequest{reqGet(part), reqEnc(data)})
		if err != nil || pan != "" || len(st.out) != 2 || st.out[1].GetEncryptResponse() == nil {
			return nil, fmt.Errorf("set-up stream for %s failed: err=%v panic=%s responses=%v", part, err, pan, st.out)
		}
		return st.out[1].GetEncryptResponse().GetDataRowRecord(), nil
	}
	var err error
	if w.own, err = mk("p1", w.ownData); err != nil {
		return nil, err
	}
	if w.foreign, err = mk("p2", []byte("foreign-data")); err != nil {
		return nil, err
	}
	return w, nil
}

var c19Alphabet = []string{"get(p1)", "get(empty)", "enc", "dec(own)", "dec(foreign)", "dec(flipped-data)", "dec(flipped-key)", "dec(empty-record)", "empty-request"}

func (w *c19World) request(name string, n int) *pb.SessionRequest {
	switch name {
	case "get(p1)":
		return reqGet("p1")
	case "get(empty)":
		return reqGet("")
	case "enc":
		return reqEnc([]byte(fmt.Sprintf("payload-%d", n)))
	case "dec(own)":
		return reqDec(cloneRec(w.own))
	case "dec(foreign)":
		return reqDec(cloneRec(w.foreign))
	case "dec(flipped-data)":
		r := cloneRec(w.own)
		r.Data[len(r.Data)/2] ^= 0x10
		return reqDec(r)
	case "dec(flipped-key)":
		r := cloneRec(w.own)
		r.Key.Key[3] ^= 0x01
		return reqDec(r)
	case "dec(empty-record)":
		return reqDec(nil)
	case "empty-request":
		return &pb.SessionRequest{}
	case "empty-request(nil-encrypt)":
		return &pb.SessionRequest{Request: &pb.SessionRequest_Encrypt{}}
	case "empty-request(nil-decrypt)":
		return &pb.SessionRequest{Request: &pb.SessionRequest_Decrypt{}}
	case "get(nil-inner)":
		return &pb.SessionRequest{Request: &pb.SessionRequest_GetSession{}}
	}
	if m, ok := c19RecordShapes[name]; ok {
		r := cloneRec(w.own)
		m(r)
		return reqDec(r)
	}
	panic(name)
}

// c19RecordShapes are structurally malformed decrypt records (every optional sub-message / field absent in turn).
var c19RecordShapes = map[string]func(r *pb.DataRowRecord){
	"dec(zero-record)":        func(r *pb.DataRowRecord) { *r = pb.DataRowRecord{} },
	"dec(no-key)":             func(r *pb.DataRowRecord) { r.Key = nil },
	"dec(no-parent-meta)":     func(r *pb.DataRowRecord) { r.Key.ParentKeyMeta = nil },
	"dec(no-key-bytes)":       func(r *pb.DataRowRecord) { r.Key.Key = nil },
	"dec(no-data)":            func(r *pb.DataRowRecord) { r.Data = nil },
	"dec(only-data)":          func(r *pb.DataRowRecord) { *r = pb.DataRowRecord{Data: r.Data} },
	"dec(only-parent-meta)":   func(r *pb.DataRowRecord) { r.Data = nil; r.Key.Key = nil },
	"dec(empty-parent-id)":    func(r *pb.DataRowRecord) { r.Key.ParentKeyMeta.KeyId = "" },
	"dec(parent-created-0)":   func(r *pb.DataRowRecord) { r.Key.ParentKeyMeta.Created = 0 },
	"dec(parent-created-min)": func(r *pb.DataRowRecord) { r.Key.ParentKeyMeta.Created = -1 << 63 },
	"dec(truncated-data)":     func(r *pb.DataRowRecord) { r.Data = r.Data[:5] },
	"dec(truncated-key)":      func(r *pb.DataRowRecord) { r.Key.Key = r.Key.Key[:5] },
	"dec(one-byte-data)":      func(r *pb.DataRowRecord) { r.Data = []byte{1} },
	"dec(long-parent-id)":     func(r *pb.DataRowRecord) { r.Key.ParentKeyMeta.KeyId = strings.Repeat("x", 1<<16) },
}

// c19Shapes: every malformed message shape in every protocol state, followed by ordinary requests (the stream must go on).
func c19Shapes(r *Report, w *c19World, sigSeen map[string]bool, label string) {
	t0 := time.Now()
	var shapes []string
	for k := range c19RecordShapes {
		shapes = append(shapes, k)
	}
	shapes = append(shapes, "empty-request(nil-encrypt)", "empty-request(nil-decrypt)", "get(nil-inner)")
	sort.Strings(shapes)
	prefixes := [][]string{{}, {"get(empty)"}, {"get(p1)"}, {"get(p1)", "enc"}, {"get(p1)", "dec(own)"}}
	suffixes := [][]string{{}, {"enc"}, {"dec(own)"}, {"get(p1)", "enc"}}
	n, nviol := 0, 0
	for _, pre := range prefixes {
		for _, sh := range shapes {
			for _, sh2 := range append([]string{""}, shapes...) {
				if sh2 != "" && len(pre) != 1 {
					continue // pairs of malformed messages only right after the first request (keeps the product small)
				}
				for _, suf := range suffixes {
					seq := append(append([]string{}, pre...), sh)
					if sh2 != "" {
						seq = append(seq, sh2)
					}
					seq = append(seq, suf...)
					reqs := make([]*pb.SessionRequest, len(seq))
					for i, nm := range seq {
						reqs[i] = w.request(nm, i)
					}
					st, serr, pan := w.runStream(reqs)
					n++
					for _, v := range w.judge(seq, st, serr, pan) {
						nviol++
						sig := v.Sig
						if !sigSeen[sig] {
							sigSeen[sig] = true
							r.Viols = append(r.Viols, Viol{Property: "C19", Harness: label, Sig: sig, Msg: v.Msg, Ops: append([]string{}, seq...)})
						}
					}
					if pan != "" {
						if w2, err := newC19World(); err == nil {
							*w = *w2
						}
					}
				}
			}
		}
	}
	r.Runs = append(r.Runs, RunInfo{Name: label + "/message-shapes", Executions: n, States: len(shapes), Transitions: int64(n), Exhaustive: true, Violations: nviol,
		Bound: fmt.Sprintf("%d malformed message shapes x 5 protocol-state prefixes x 4 continuations (+ all ordered pairs of shapes after the first request)", len(shapes)), WallS: time.Since(t0).Seconds()})
	r.Evaluations += n
	r.TracesValidated += n
	r.DistinctNontrivial += n
	r.Transitions += int64(n)
}

func isErrResp(r *pb.SessionResponse) bool { return r.GetErrorResponse() != nil }

// judge compares one finished stream with the reference automaton.
func (w *c19World) judge(seq []string, st *memStream, err error, pan string) (viols []kViol) {
	fail := func(sig, format string, a ...interface{}) {
		viols = append(viols, kViol{Prop: "C19", Sig: sig, Msg: fmt.Sprintf(format, a...)})
	}
	if pan != "" {
		// classify by the protocol state in which it happened
		state := "uninit"
		for i := 0; i < len(st.out) && i < len(seq); i++ {
			if strings.HasPrefix(seq[i], "get") && state != "init" {
				if !isErrResp(st.out[i]) {
					state = "init"
				} else {
					state = "rejected"
				}
			}
		}
		at := "end-of-stream"
		if len(st.out) < len(seq) {
			at = seq[len(st.out)]
		}
		fail("panic:"+state+":"+at, "stream %v panicked at %s in state %s (would take the sidecar process down): %s", seq, at, state, pan)
		return
	}
	if err != nil {
		fail("session-error", "Session returned %v at end of stream %v, want nil", err, seq)
	}
	if len(st.out) != len(seq) {
		fail("reply-count", "stream %v: %d requests, %d responses", seq, len(seq), len(st.out))
		return
	}
	state := "uninit"
	for i, name := range seq {
		r := st.out[i]
		switch {
		case strings.HasPrefix(name, "empty-request"):
			// exactly one (empty or error) response; nothing else is fixed by the statement
		case strings.HasPrefix(name, "get"):
			switch state {
			case "init":
				if !isErrResp(r) {
					fail("second-get-accepted", "stream %v: request %d %s after a successful get-session was not answered with an error response: %v", seq, i, name, r)
				}
			case "uninit", "rejected":
				if name != "get(p1)" {
					if !isErrResp(r) {
						fail("empty-partition-accepted", "stream %v: get-session with an empty partition id was accepted", seq)
						state = "init"
					} else if state == "uninit" {
						state = "rejected"
					}
				} else {
					if state == "uninit" && isErrResp(r) {
						fail("valid-get-rejected", "stream %v: first get-session(p1) answered with error %q", seq, r.GetErrorResponse().GetMessage())
					}
					if !isErrResp(r) {
						state = "init"
					}
				}
			}
		case name == "enc":
			if state != "init" {
				if !isErrResp(r) {
					fail("enc-before-session", "stream %v: encrypt in state %s answered with %v, want an error response", seq, state, r)
				}
				continue
			}
			er := r.GetEncryptResponse()
			if er == nil || er.GetDataRowRecord() == nil {
				fail("enc-no-record", "stream %v: encrypt after get-session answered with %v", seq, r)
				continue
			}
			// round trip through an independent stream of the same partition
			vs, verr, vpan := w.runStream([]*pb.SessionRequest{reqGet("p1"), reqDec(cloneRec(er.GetDataRowRecord()))})
			want := []byte(fmt.Sprintf("payload-%d", i))
			if verr != nil || vpan != "" || len(vs.out) != 2 || !bytes.Equal(vs.out[1].GetDecryptResponse().GetData(), want) {
				fail("enc-roundtrip", "stream %v: record returned by request %d does not decrypt to its payload on another stream: %v %s", seq, i, verr, vpan)
			}
		case name == "dec(own)":
			if state != "init" {
				if !isErrResp(r) {
					fail("dec-before-session", "stream %v: decrypt in state %s answered with %v, want an error response", seq, state, r)
				}
				continue
			}
			if d := r.GetDecryptResponse(); d == nil || !bytes.Equal(d.GetData(), w.ownData) {
				fail("dec-own", "stream %v: decrypt of a genuine record answered with %v", seq, r)
			}
		case strings.HasPrefix(name, "dec(parent-created-"):
			// the parent key's stamp is a lookup hint, not authenticated data: the SDK may still find the right key (stamp 0
			// means "latest" to the key cache). Like the SDK, the sidecar answers with an error or with the genuine payload.
			if !isErrResp(r) && !(state == "init" && bytes.Equal(r.GetDecryptResponse().GetData(), w.ownData)) {
				fail("bad-record-accepted:"+name, "stream %v: %s in state %s answered with %v, want an error response or the genuine payload", seq, name, state, r)
			}
		default: // foreign / corrupt / empty records
			if !isErrResp(r) {
				what := "dec-before-session"
				if state == "init" {
					what = "bad-record-accepted:" + name
				}
				fail(what, "stream %v: %s in state %s answered with %v, want an error response", seq, name, state, r)
			}
		}
	}
	return
}

// CheckC19 enumerates every request sequence up to the tier's length.
func CheckC19(r *Report) {
	r.Rule = "every sequence of 1..L requests over {get-session valid/empty id, encrypt, decrypt genuine/foreign/bit-flipped data/bit-flipped key/empty record, empty request} followed by end-of-stream, each on a fresh stream of one real AppEncryption (memory metastore, static KMS); oracle = reference protocol automaton; distinct_nontrivial = sequences that contain a successful get-session"
	maxLen := 5
	if r.Thorough() {
		maxLen = 6
	}
	c19SessionCaching = false
	w, sigSeen := c19Enumerate(r, "C19/streams", maxLen)
	if w == nil {
		return
	}
	// the same sequences (one request shorter) on a sidecar with session caching enabled (capacity 1)
	c19SessionCaching = true
	if w2, _ := c19Enumerate(r, "C19/streams-session-cache", maxLen-1); w2 != nil {
		c19Shapes(r, w2, map[string]bool{}, "C19/streams-session-cache")
	}
	c19SessionCaching = false
	r.Rule += " || the same sequences up to one request shorter, and the message shapes, on a sidecar with session caching enabled (capacity 1)"
	c19Shapes(r, w, sigSeen, "C19/streams")
	r.Rule += " || PLUS message shapes: every structurally malformed decrypt record (each optional sub-message / field absent, truncated, empty or oversized) and typed-nil request bodies, in every protocol state, followed by ordinary requests on the same stream"
	if r.TimeLeft() {
		c19Sched(r)
		r.Rule += " || PLUS two concurrent streams (each: get-session, encrypt; then get-session, decrypt, encrypt) on one AppEncryption over the instrumented SDK, every interleaving up to the preemption bound, with and without session caching"
	}
}

// c19Enumerate runs every request sequence up to maxLen on the current sidecar configuration.
func c19Enumerate(r *Report, label string, maxLen int) (*c19World, map[string]bool) {
	w, err := newC19World()
	if err != nil {
		r.MachineryError = err.Error()
		return nil, nil
	}
	sigSeen := map[string]bool{}
	states := map[string]bool{}
	t0 := time.Now()
	seq := []string{}
	completedLen := 0
	var rec func(depth int) bool
	nstreams, nontrivial, nviol := 0, 0, 0
	rec = func(depth int) bool {
		if len(seq) > 0 {
			if nstreams%256 == 0 && !r.TimeLeft() {
				return false
			}
			reqs := make([]*pb.SessionRequest, len(seq))
			for i, n := range seq {
				reqs[i] = w.request(n, i)
			}
			st, serr, pan := w.runStream(reqs)
			nstreams++
			viols := w.judge(seq, st, serr, pan)
			init := false
			stt := "uninit"
			for i, n := range seq {
				if strings.HasPrefix(n, "get") && i < len(st.out) && !isErrResp(st.out[i]) {
					init = true
					stt = "init"
				} else if n == "get(empty)" && stt == "uninit" {
					stt = "rejected"
				}
			}
			states[stt] = true
			if init {
				nontrivial++
			}
			for _, v := range viols {
				nviol++
				if !sigSeen[v.Sig] {
					sigSeen[v.Sig] = true
					r.Viols = append(r.Viols, Viol{Property: "C19", Harness: label, Sig: v.Sig, Msg: v.Msg, Ops: append([]string{}, seq...)})
				}
			}
			if pan != "" {
				// a panic may have left locks held: continue on a fresh server
				if w2, err := newC19World(); err == nil {
					w = w2
				}
				// longer sequences are still explored: the crash site may differ (mid-stream vs end-of-stream)
			}
			if len(r.Samples) < 3 && len(seq) == maxLen && init {
				r.Samples = append(r.Samples, map[string]interface{}{"requests": append([]string{}, seq...), "responses": len(st.out)})
			}
		}
		if depth == maxLen {
			return true
		}
		for _, a := range c19Alphabet {
			seq = append(seq, a)
			ok := rec(depth + 1)
			seq = seq[:len(seq)-1]
			if !ok {
				return false
			}
		}
		return true
	}
	// iterate the length bound so that the evidence reports the bound completed
	full := true
	for L := 1; L <= maxLen; L++ {
		save := maxLen
		maxLen = L
		nstreams, nontrivial = 0, 0
		ok := rec(0)
		maxLen = save
		if !ok {
			full = false
			break
		}
		completedLen = L
	}
	if !full {
		r.Exhaustive = false
		r.Caps = append(r.Caps, fmt.Sprintf("time budget: sequences up to length %d completed", completedLen))
	}
	r.Runs = append(r.Runs, RunInfo{Name: label, Executions: nstreams, States: len(states), Transitions: int64(nstreams), Bound: fmt.Sprintf("all sequences of length <= %d (alphabet %d)", completedLen, len(c19Alphabet)),
		Exhaustive: full, Violations: nviol, WallS: time.Since(t0).Seconds()})
	r.Evaluations += nstreams
	r.TracesValidated += nstreams
	r.DistinctNontrivial += nontrivial
	r.States += len(states)
	r.Transitions += int64(nstreams)
	r.Counters["violating-streams"] = nviol
	if len(r.Samples) == 0 {
		r.Samples = append(r.Samples, map[string]interface{}{"requests": []string{"get(p1)", "enc", "dec(own)"}})
	}
	return w, sigSeen
}

func c19Replay(v *Viol) []string {
	c19SessionCaching = v.Harness == "C19/streams-session-cache"
	w, err := newC19World()
	if err != nil {
		return []string{err.Error()}
	}
	var seq []string
	switch ops := v.Ops.(type) {
	case []interface{}:
		for _, o := range ops {
			seq = append(seq, fmt.Sprint(o))
		}
	}
	reqs := make([]*pb.SessionRequest, len(seq))
	for i, n := range seq {
		reqs[i] = w.request(n, i)
	}
	st, serr, pan := w.runStream(reqs)
	fmt.Println("requests:", seq, "responses:", len(st.out))
	var out []string
	for _, kv := range w.judge(seq, st, serr, pan) {
		out = append(out, kv.Sig+": "+kv.Msg)
	}
	return out
}

// ---------------------------------------------------------------------------------
// C19 (concurrent streams): two streams served by one AppEncryption at the same time,
// every interleaving up to the preemption bound (SDK instrumented, doubles as elsewhere).
// ---------------------------------------------------------------------------------

type c19SchedScenario struct {
	name  string
	spec  PolicySpec
	parts [2]string
}

func (sc c19SchedScenario) body(c *explore.Ctx) {
	vsched.BeginQuiet()
	w := NewWorld()
	f := w.NewFactory(sc.spec)
	app := server.VerifNewAppEncryption(f)
	vsched.EndQuiet()
	type res struct {
		err  error
		pan  string
		out  []*pb.SessionResponse
		done bool
	}
	results := make([]*res, 2)
	for i := 0; i < 2; i++ {
		i := i
		results[i] = &res{}
		vsched.GoNamed(fmt.Sprintf("stream%d", i), func() {
			r := results[i]
			pay := []byte(fmt.Sprintf("stream-%d-payload", i))
			// first half: get-session + encrypt; second half (own stream again): decrypt what was encrypted
			st := &memStream{in: []*pb.SessionRequest{reqGet(sc.parts[i]), reqEnc(pay)}}
			r.pan = safe(func() { r.err = app.Session(st) })
			r.out = st.out
			if r.pan == "" && r.err == nil && len(st.out) == 2 && st.out[1].GetEncryptResponse() != nil {
				st2 := &memStream{in: []*pb.SessionRequest{reqGet(sc.parts[i]), reqDec(cloneRec(st.out[1].GetEncryptResponse().GetDataRowRecord())), reqEnc(pay)}}
				r.pan = safe(func() { r.err = app.Session(st2) })
				r.out = append(r.out, st2.out...)
				if len(st2.out) == 3 && !bytes.Equal(st2.out[1].GetDecryptResponse().GetData(), pay) {
					r.err = fmt.Errorf("decrypt on the second stream returned %v", st2.out[1])
				}
			}
			r.done = true
		})
	}
	vsched.Quiesce()
	for i, r := range results {
		switch {
		case !r.done:
			c.Failf("blocked", "stream %d never finished: %v", i, vsched.Blocked())
		case r.pan != "":
			c.Failf("panic", "stream %d panicked: %s", i, r.pan)
		case r.err != nil:
			c.Failf("stream-error", "stream %d: %v", i, r.err)
		case len(r.out) != 5:
			c.Failf("reply-count", "stream %d got %d responses for 5 requests", i, len(r.out))
		default:
			for j, o := range r.out {
				if isErrResp(o) {
					c.Failf("error-response", "stream %d response %d is an error: %s", i, j, o.GetErrorResponse().GetMessage())
				}
			}
		}
	}
	if n := len(w.TF.UseAfterClose); n > 0 {
		c.Failf("use-after-destroy", "%v", w.TF.UseAfterClose)
	}
	vsched.BeginQuiet()
	f.Close()
	vsched.EndQuiet()
	for _, s := range w.TF.Secrets {
		if !s.Closed {
			c.Failf("leak-after-close", "secret#%d still live after both streams ended and the factory was closed", s.ID)
			break
		}
	}
}

func c19SchedScenarios() []c19SchedScenario {
	return []c19SchedScenario{
		{"two-partitions-default", SpecDefault, [2]string{"p1", "p2"}},
		{"same-partition-default", SpecDefault, [2]string{"p1", "p1"}},
		{"two-partitions-session-cache-1", SpecSessions("slru", 1), [2]string{"p1", "p2"}},
		{"same-partition-session-cache", SpecSessions("slru", 2), [2]string{"p1", "p1"}},
	}
}

func c19Sched(r *Report) {
	bound := 1
	if r.Thorough() {
		bound = 2
	}
	for _, sc := range c19SchedScenarios() {
		sc := sc
		t0 := time.Now()
		cfg := explore.Config{Name: "C19s/" + sc.name, Preemptions: bound, Deviations: 0, HBCache: true, Deadline: r.Deadline, MaxViolations: 5}
		res := explore.Explore(cfg, sc.body)
		r.AddExplore(res, fmt.Sprintf("preemption bound %d", bound), time.Since(t0).Seconds())
	}
}


// c07Sidecar: C07 ("decrypt yields the payload or an error, never a panic") through the sidecar's protobuf mapping: every
// malformed decrypt record shape after a successful get-session, on both sidecar configurations.
func c07Sidecar(r *Report, add func(v *kViol, ops interface{}, spec string)) {
	n := 0
	for _, caching := range []bool{false, true} {
		c19SessionCaching = caching
		w, err := newC19World()
		if err != nil {
			c19SessionCaching = false
			r.Vacuous = append(r.Vacuous, "C07/sidecar: set-up failed: "+err.Error())
			return
		}
		var shapes []string
		for k := range c19RecordShapes {
			shapes = append(shapes, k)
		}
		shapes = append(shapes, "dec(flipped-data)", "dec(flipped-key)", "dec(empty-record)", "dec(foreign)")
		sort.Strings(shapes)
		for _, sh := range shapes {
			seq := []string{"get(p1)", sh, "dec(own)"}
			reqs := make([]*pb.SessionRequest, len(seq))
			for i, nm := range seq {
				reqs[i] = w.request(nm, i)
			}
			st, _, pan := w.runStream(reqs)
			n++
			switch {
			case pan != "":
				add(&kViol{Prop: "C07", Sig: "panic:sidecar-decrypt", Msg: fmt.Sprintf("sidecar (session caching %v): decrypt request %s made the handler panic: %s", caching, sh, pan)}, seq, "sidecar")
				if w2, err := newC19World(); err == nil {
					w = w2
				}
			case len(st.out) >= 2 && !isErrResp(st.out[1]) && !strings.HasPrefix(sh, "dec(parent-created-") && !bytes.Equal(st.out[1].GetDecryptResponse().GetData(), w.ownData):
				add(&kViol{Prop: "C07", Sig: "wrong-bytes:sidecar-decrypt", Msg: fmt.Sprintf("sidecar (session caching %v): decrypt request %s answered with %q without error", caching, sh, st.out[1].GetDecryptResponse().GetData())}, seq, "sidecar")
			}
		}
	}
	c19SessionCaching = false
	r.Runs = append(r.Runs, RunInfo{Name: "C07/sidecar", Executions: n, States: n, Transitions: int64(n), Exhaustive: true,
		Bound: "every malformed decrypt record shape after get-session, sidecar with and without session caching"})
	r.Evaluations += n
	r.TracesValidated += n
	r.Transitions += int64(n)
	r.DistinctNontrivial += n
}
