package harness

import (
	"fmt"
	"strings"
	"time"

	ae "github.com/godaddy/asherah/go/appencryption"

	"asherahverif/explore"
	"asherahverif/ref"
	"asherahverif/shim/vclock"
	"asherahverif/shim/vsched"
)

// ---------------------------------------------------------------------------------
// C05 under faults: a long-lived session has its keys cached, one of them is flagged revoked in the metastore, and the
// session keeps encrypting at fixed instants around the one- and two-interval marks while the metastore reads and the
// KMS unwraps it performs may fail (every placement of up to D failures, an environment choice of the explorer).
// A failing revocation re-check must never be answered by trusting the cached copy: every record handed out after the
// bound names keys that are not flagged revoked - unless a replacement could not be created (an insert or a KMS wrap
// was made to fail), which the property excludes.
// ---------------------------------------------------------------------------------

type c05fScenario struct {
	name    string
	revoke  string // IK | SK (C05) | "" (C04: nothing is revoked, the keys simply age)
	spec    PolicySpec
	offsets []int // seconds between consecutive encrypts, the first counted from the revocation / the warm-up
	skAge   int   // C04: the system key is this many seconds older than the intermediate key
}

// c04fScenarios are the C04 timelines: keys age past the lifetime while the reads of the session may fail.
func c04fScenarios(thorough bool) []c05fScenario {
	out := []c05fScenario{
		{name: "expire-both/E+1,R", spec: SpecDefault, offsets: []int{E + 1, R}},
		{name: "expire-sk-first/E-R,R+1,R", spec: SpecDefault, offsets: []int{E - R - 120, R + 1, R}, skAge: R + 120},
	}
	if thorough {
		out = append(out,
			c05fScenario{name: "expire-both/E-1,R,R", spec: SpecDefault, offsets: []int{E - 1, R, R}},
			c05fScenario{name: "expire-both-shared/E+1,R", spec: SpecShared("lru", 2), offsets: []int{E + 1, R}},
			c05fScenario{name: "expire-both-sessions/E+1,R", spec: SpecSessions("slru", 1), offsets: []int{E + 1, R}},
			c05fScenario{name: "expire-both-nocache/E+1,R", spec: SpecNoCache, offsets: []int{E + 1, R}},
			c05fScenario{name: "expire-sk-first-ikonly/E-R,R+1,R", spec: SpecIKOnly, offsets: []int{E - R - 120, R + 1, R}, skAge: R + 120},
		)
	}
	return out
}

func c05fScenarios(thorough bool) []c05fScenario {
	out := []c05fScenario{
		{name: "sk-revoked/R+1,R,R+1", revoke: "SK", spec: SpecDefault, offsets: []int{R + 1, R, R + 1}},
		{name: "ik-revoked/R+1,R", revoke: "IK", spec: SpecDefault, offsets: []int{R + 1, R}},
	}
	if thorough {
		out = append(out,
			c05fScenario{name: "sk-revoked/R-1,R,R,R", revoke: "SK", spec: SpecDefault, offsets: []int{R - 1, R, R, R}},
			c05fScenario{name: "sk-revoked-shared/R+1,R,R+1", revoke: "SK", spec: SpecShared("lru", 2), offsets: []int{R + 1, R, R + 1}},
			c05fScenario{name: "sk-revoked-sessions/R+1,R,R+1", revoke: "SK", spec: SpecSessions("slru", 1), offsets: []int{R + 1, R, R + 1}},
			c05fScenario{name: "sk-revoked-ikonly/R+1,R,R+1", revoke: "SK", spec: SpecIKOnly, offsets: []int{R + 1, R, R + 1}},
			c05fScenario{name: "ik-revoked/R-1,R,R", revoke: "IK", spec: SpecDefault, offsets: []int{R - 1, R, R}},
			c05fScenario{name: "ik-revoked-shared/R+1,R", revoke: "IK", spec: SpecShared("lru", 2), offsets: []int{R + 1, R}},
		)
	}
	return out
}

func (sc c05fScenario) body(c *explore.Ctx) {
	vsched.BeginQuiet()
	w := NewWorld()
	f := w.NewFactory(sc.spec)
	s, _ := f.GetSession("A")
	ikID := ref.IntermediateKeyID("A", "s", "p", "")
	skID := ref.SystemKeyID("s", "p", "")
	if sc.skAge > 0 {
		// the system key is created first, through another partition
		sb, _ := f.GetSession("B")
		if _, err := sb.Encrypt(ctx, []byte("b")); err != nil {
			panic(fmt.Sprintf("C04f set-up: %v", err))
		}
		sb.Close()
		vclock.Advance(time.Duration(sc.skAge) * time.Second)
	}
	warm, err := s.Encrypt(ctx, []byte("warm"))
	if err != nil {
		panic(fmt.Sprintf("C05f set-up: %v", err))
	}
	switch sc.revoke {
	case "IK":
		w.MS.Revoke(ikID, warm.Key.ParentKeyMeta.Created)
	case "SK":
		w.MS.Revoke(skID, w.MS.Latest(skID).Created)
	}
	tRev := vclock.Unix()
	prop := "C05"
	if sc.revoke == "" {
		prop = "C04"
	}
	vsched.EndQuiet()
	blocked := false // a replacement key could not be created (insert / wrap made to fail): outside the property
	for n, off := range sc.offsets {
		vclock.Advance(time.Duration(off) * time.Second)
		vsched.GlobalEvent("tick")
		w.MS.FaultMode, w.KMS.FaultMode = 1, 1
		msFrom, kmsFrom := len(w.MS.Calls), len(w.KMS.Calls)
		rowsBefore := map[string]bool{}
		for _, r := range w.MS.SortedRows() {
			rowsBefore[rowKey(r.ID, r.Created)] = true
		}
		var rec *ae.DataRowRecord
		var err error
		pan := safe(func() { rec, err = s.Encrypt(ctx, []byte(fmt.Sprintf("payload-%d", n))) })
		w.MS.FaultMode, w.KMS.FaultMode = 0, 0
		now := vclock.Unix()
		var trail strings.Builder
		faults := 0
		for _, cl := range w.MS.Calls[msFrom:] {
			fmt.Fprintf(&trail, "%s(%s/%d)=%s; ", cl.Op, cl.ID, cl.Created, cl.Result)
			if strings.Contains(cl.Result, "error") || strings.Contains(cl.Result, "false(") {
				faults++
				if cl.Op == "Store" {
					blocked = true
				}
			}
		}
		for _, cl := range w.KMS.Calls[kmsFrom:] {
			fmt.Fprintf(&trail, "kms.%s=%s; ", cl.Op, cl.Result)
			if cl.Result != "ok" {
				faults++
				if cl.Op == "EncryptKey" {
					blocked = true
				}
			}
		}
		if faults > 0 {
			c.Outcome("faulted")
		}
		if pan != "" {
			c.Failf(prop+":panic", "encrypt %d panicked: %s", n, pan)
			return
		}
		if err != nil {
			if faults == 0 {
				c.Failf(prop+":enc-error-without-fault", "encrypt %d at +%ds failed although nothing was made to fail: %v (calls: %s)", n, now-tRev, err, trail.String())
			}
			continue
		}
		ik := w.MS.Rows[rec.Key.ParentKeyMeta.ID][rec.Key.ParentKeyMeta.Created]
		if ik == nil {
			c.Failf(prop+":record-under-unstored-ik", "encrypt %d names an IK that is not in the metastore (calls: %s)", n, trail.String())
			continue
		}
		var sk *struct{ revoked bool; at int64; created int64 }
		if ik.Rec.ParentKeyMeta != nil {
			if r := w.MS.Rows[ik.Rec.ParentKeyMeta.ID][ik.Rec.ParentKeyMeta.Created]; r != nil {
				sk = &struct{ revoked bool; at int64; created int64 }{r.Rec.Revoked, r.RevokedAt, r.Created}
			}
		}
		rowsNow := map[string]bool{}
		for _, r := range w.MS.SortedRows() {
			rowsNow[rowKey(r.ID, r.Created)] = true
		}
		if prop == "C04" {
			switch {
			case blocked:
				c.Outcome("exempt:replacement-blocked")
			case now > ik.Created+E:
				c.Failf("C04:expired-ik-used-after-failed-read", "encrypt %d at t=+%ds handed out a record under IK %d of age %d > lifetime %d although the metastore accepts writes; calls of this encrypt: %s", n, now-tRev, ik.Created, now-ik.Created, E, trail.String())
			case sk != nil && now > sk.created+E+R:
				c.Failf("C04:ik-of-expired-sk-used-after-failed-read", "encrypt %d at t=+%ds handed out a record under IK %d whose system key %d expired %ds ago (bound: one interval of %ds); calls of this encrypt: %s", n, now-tRev, ik.Created, sk.created, now-sk.created-E, R, trail.String())
			default:
				c.Outcome("checked")
			}
			// no intermediate key is created under a system key that is expired at that time
			for _, r := range w.MS.SortedRows() {
				if strings.HasPrefix(r.ID, "_IK_") && r.StoredAt == now && !rowsBefore[rowKey(r.ID, r.Created)] && r.Rec.ParentKeyMeta != nil && now > r.Rec.ParentKeyMeta.Created+E && !blocked {
					c.Failf("C04:ik-created-under-expired-sk-after-failed-read", "encrypt %d created IK %d under system key %d which is expired at that time; calls: %s", n, r.Created, r.Rec.ParentKeyMeta.Created, trail.String())
				}
			}
			continue
		}
		switch {
		case blocked:
			c.Outcome("exempt:replacement-blocked")
		case ik.Rec.Revoked && now-ik.RevokedAt > R:
			c.Failf("C05:revoked-ik-used-after-failed-recheck", "encrypt %d at %ds after the revocation handed out a record under the revoked IK %d (bound: one interval of %ds); calls of this encrypt: %s", n, now-ik.RevokedAt, ik.Created, R, trail.String())
		case sk != nil && sk.revoked && now-sk.at > 2*R:
			c.Failf("C05:ik-of-revoked-sk-used-after-failed-recheck", "encrypt %d at %ds after the revocation handed out a record under IK %d whose system key %d is revoked (bound: two intervals of %ds); calls of this encrypt: %s", n, now-sk.at, ik.Created, sk.created, R, trail.String())
		default:
			c.Outcome("checked")
		}
	}
	vsched.BeginQuiet()
	s.Close()
	f.Close()
	vsched.EndQuiet()
}

// c05Faults explores the timelines; deviations = injected failures.
func c05Faults(r *Report) { timelineFaults(r, "C05f/", c05fScenarios(r.Thorough())) }

// c04Faults is the same for the C04 timelines.
func c04Faults(r *Report) { timelineFaults(r, "C04f/", c04fScenarios(r.Thorough())) }

func timelineFaults(r *Report, prefix string, scs []c05fScenario) {
	for _, sc := range scs {
		sc := sc
		if !r.TimeLeft() {
			r.Exhaustive = false
			r.Caps = append(r.Caps, prefix+sc.name+": not started (time budget)")
			continue
		}
		dev := 2
		if r.Thorough() {
			dev = 3
		}
		t0 := time.Now()
		cfg := explore.Config{Name: prefix + sc.name, Preemptions: 0, Deviations: dev, Deadline: r.Deadline, MaxViolations: 100}
		res := explore.Explore(cfg, sc.body)
		seen := map[string]bool{}
		var keep []explore.Violation
		for _, v := range res.Violations {
			if !seen[v.Sig] {
				seen[v.Sig] = true
				keep = append(keep, v)
			}
		}
		res.Violations = keep
		r.AddExplore(res, fmt.Sprintf("injected metastore / KMS failures <= %d, all placements", dev), time.Since(t0).Seconds())
		r.DistinctNontrivial += res.Outcomes["faulted"]
	}
}

func c05fReplayBody(h string) explore.Body {
	for _, sc := range c05fScenarios(true) {
		if "C05f/"+sc.name == h {
			return sc.body
		}
	}
	for _, sc := range c04fScenarios(true) {
		if "C04f/"+sc.name == h {
			return sc.body
		}
	}
	return nil
}
