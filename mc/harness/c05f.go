package harness

import (
	"fmt"
	"strings"
	"time"

	ae "github.com/godaddy/asherah/go/appencryption"

	"asherahverif/explore"
	"asherahverif/ref"
	"asherahverif/shim/vclock"
	"asherahverif/shim/vsched"
)

// ---------------------------------------------------------------------------------
// C05 under faults: a long-lived session has its keys cached, one of them is flagged revoked in the metastore, and the
// session keeps encrypting at fixed instants around the one- and two-interval marks while the metastore reads and the
// KMS unwraps it performs may fail (every placement of up to D failures, an environment choice of the explorer).
// A failing revocation re-check must never be answered by trusting the cached copy: every record handed out after the
// bound names keys that are not flagged revoked - unless a replacement could not be created (an insert or a KMS wrap
// was made to fail), which the property excludes.
// ---------------------------------------------------------------------------------

type c05fScenario struct {
	name    string
	revoke  string // IK | SK
	spec    PolicySpec
	offsets []int // seconds between consecutive encrypts, the first counted from the revocation
}

func c05fScenarios(thorough bool) []c05fScenario {
	out := []c05fScenario{
		{"sk-revoked/R+1,R,R+1", "SK", SpecDefault, []int{R + 1, R, R + 1}},
		{"ik-revoked/R+1,R", "IK", SpecDefault, []int{R + 1, R}},
	}
	if thorough {
		out = append(out,
			c05fScenario{"sk-revoked/R-1,R,R,R", "SK", SpecDefault, []int{R - 1, R, R, R}},
			c05fScenario{"sk-revoked-shared/R+1,R,R+1", "SK", SpecShared("lru", 2), []int{R + 1, R, R + 1}},
			c05fScenario{"sk-revoked-sessions/R+1,R,R+1", "SK", SpecSessions("slru", 1), []int{R + 1, R, R + 1}},
			c05fScenario{"sk-revoked-ikonly/R+1,R,R+1", "SK", SpecIKOnly, []int{R + 1, R, R + 1}},
			c05fScenario{"ik-revoked/R-1,R,R", "IK", SpecDefault, []int{R - 1, R, R}},
			c05fScenario{"ik-revoked-shared/R+1,R", "IK", SpecShared("lru", 2), []int{R + 1, R}},
		)
	}
	return out
}

func (sc c05fScenario) body(c *explore.Ctx) {
	vsched.BeginQuiet()
	w := NewWorld()
	f := w.NewFactory(sc.spec)
	s, _ := f.GetSession("A")
	ikID := ref.IntermediateKeyID("A", "s", "p", "")
	skID := ref.SystemKeyID("s", "p", "")
	warm, err := s.Encrypt(ctx, []byte("warm"))
	if err != nil {
		panic(fmt.Sprintf("C05f set-up: %v", err))
	}
	if sc.revoke == "IK" {
		w.MS.Revoke(ikID, warm.Key.ParentKeyMeta.Created)
	} else {
		w.MS.Revoke(skID, w.MS.Latest(skID).Created)
	}
	tRev := vclock.Unix()
	vsched.EndQuiet()
	blocked := false // a replacement key could not be created (insert / wrap made to fail): outside the property
	for n, off := range sc.offsets {
		vclock.Advance(time.Duration(off) * time.Second)
		vsched.GlobalEvent("tick")
		w.MS.FaultMode, w.KMS.FaultMode = 1, 1
		msFrom, kmsFrom := len(w.MS.Calls), len(w.KMS.Calls)
		var rec *ae.DataRowRecord
		var err error
		pan := safe(func() { rec, err = s.Encrypt(ctx, []byte(fmt.Sprintf("payload-%d", n))) })
		w.MS.FaultMode, w.KMS.FaultMode = 0, 0
		now := vclock.Unix()
		var trail strings.Builder
		faults := 0
		for _, cl := range w.MS.Calls[msFrom:] {
			fmt.Fprintf(&trail, "%s(%s/%d)=%s; ", cl.Op, cl.ID, cl.Created, cl.Result)
			if strings.Contains(cl.Result, "error") || strings.Contains(cl.Result, "false(") {
				faults++
				if cl.Op == "Store" {
					blocked = true
				}
			}
		}
		for _, cl := range w.KMS.Calls[kmsFrom:] {
			fmt.Fprintf(&trail, "kms.%s=%s; ", cl.Op, cl.Result)
			if cl.Result != "ok" {
				faults++
				if cl.Op == "EncryptKey" {
					blocked = true
				}
			}
		}
		if faults > 0 {
			c.Outcome("faulted")
		}
		if pan != "" {
			c.Failf("C05:panic", "encrypt %d panicked: %s", n, pan)
			return
		}
		if err != nil {
			if faults == 0 {
				c.Failf("C05:enc-error-without-fault", "encrypt %d at +%ds failed although nothing was made to fail: %v (calls: %s)", n, now-tRev, err, trail.String())
			}
			continue
		}
		ik := w.MS.Rows[rec.Key.ParentKeyMeta.ID][rec.Key.ParentKeyMeta.Created]
		if ik == nil {
			c.Failf("C05:record-under-unstored-ik", "encrypt %d names an IK that is not in the metastore (calls: %s)", n, trail.String())
			continue
		}
		var sk *struct{ revoked bool; at int64; created int64 }
		if ik.Rec.ParentKeyMeta != nil {
			if r := w.MS.Rows[ik.Rec.ParentKeyMeta.ID][ik.Rec.ParentKeyMeta.Created]; r != nil {
				sk = &struct{ revoked bool; at int64; created int64 }{r.Rec.Revoked, r.RevokedAt, r.Created}
			}
		}
		switch {
		case blocked:
			c.Outcome("exempt:replacement-blocked")
		case ik.Rec.Revoked && now-ik.RevokedAt > R:
			c.Failf("C05:revoked-ik-used-after-failed-recheck", "encrypt %d at %ds after the revocation handed out a record under the revoked IK %d (bound: one interval of %ds); calls of this encrypt: %s", n, now-ik.RevokedAt, ik.Created, R, trail.String())
		case sk != nil && sk.revoked && now-sk.at > 2*R:
			c.Failf("C05:ik-of-revoked-sk-used-after-failed-recheck", "encrypt %d at %ds after the revocation handed out a record under IK %d whose system key %d is revoked (bound: two intervals of %ds); calls of this encrypt: %s", n, now-sk.at, ik.Created, sk.created, R, trail.String())
		default:
			c.Outcome("checked")
		}
	}
	vsched.BeginQuiet()
	s.Close()
	f.Close()
	vsched.EndQuiet()
}

// c05Faults explores the timelines; deviations = injected failures.
func c05Faults(r *Report) {
	for _, sc := range c05fScenarios(r.Thorough()) {
		sc := sc
		if !r.TimeLeft() {
			r.Exhaustive = false
			r.Caps = append(r.Caps, "C05f/"+sc.name+": not started (time budget)")
			continue
		}
		dev := 2
		if r.Thorough() {
			dev = 3
		}
		t0 := time.Now()
		cfg := explore.Config{Name: "C05f/" + sc.name, Preemptions: 0, Deviations: dev, Deadline: r.Deadline, MaxViolations: 100}
		res := explore.Explore(cfg, sc.body)
		seen := map[string]bool{}
		var keep []explore.Violation
		for _, v := range res.Violations {
			if !seen[v.Sig] {
				seen[v.Sig] = true
				keep = append(keep, v)
			}
		}
		res.Violations = keep
		r.AddExplore(res, fmt.Sprintf("injected metastore / KMS failures <= %d, all placements", dev), time.Since(t0).Seconds())
		r.DistinctNontrivial += res.Outcomes["faulted"]
	}
}

func c05fReplayBody(h string) explore.Body {
	for _, sc := range c05fScenarios(true) {
		if "C05f/"+sc.name == h {
			return sc.body
		}
	}
	return nil
}
