// gen builds the `go build -overlay` description that binds the checker to the current
// working tree of /repo: every non-test file of the instrumented packages is parsed and,
// where it uses synchronisation, goroutines, channels, the wall clock, crypto/rand or map
// iteration, a rewritten copy is emitted in which those go through the asherahverif shims.
// Extra files (exports for the harness) are added as overlay entries without an on-disk
// original. Nothing under /repo is modified.
//
//	gen -repo /repo -out /verif/.work/overlay -extra /verif/mc/gen_extra [-mutate file=repl ...]
package main

import (
	"bytes"
	"encoding/json"
	"flag"
	"fmt"
	"go/ast"
	"go/format"
	"go/parser"
	"go/token"
	"go/types"
	"os"
	"path/filepath"
	"sort"
	"strconv"
	"strings"
)

const shim = "asherahverif/shim/"

// packages (directories relative to the repo root) whose files are instrumented.
var instrumented = []string{
	"go/appencryption",
	"go/appencryption/internal",
	"go/appencryption/pkg/cache",
	"go/appencryption/pkg/persistence",
	"go/appencryption/pkg/kms",
	"go/appencryption/pkg/crypto/aead",
	"go/appencryption/plugins/aws-v1/kms",
	"go/appencryption/plugins/aws-v2/kms",
	"go/securememory",
	"go/securememory/protectedmemory",
	"go/securememory/memguard",
	"go/securememory/internal/secrets",
	"go/securememory/internal/memcall",
	"server/go/pkg/server",
}

// files that are left alone even inside instrumented packages (they only feed metrics
// timers with time.Now or talk to real databases).
var skipFiles = map[string]bool{
	"go/appencryption/pkg/persistence/sql.go":      true,
	"go/appencryption/pkg/persistence/dynamodb.go": true,
	"go/appencryption/pkg/kms/aws.go":              true,
}

type gap struct {
	pos  token.Position
	what string
}

type fileRewriter struct {
	fset     *token.FileSet
	file     *ast.File
	info     *types.Info
	changed  bool
	needs    map[string]bool // shim packages to import
	gaps     []gap
	timeName string
	tmp      int
}

func (r *fileRewriter) gapf(n ast.Node, format string, a ...interface{}) {
	r.gaps = append(r.gaps, gap{r.fset.Position(n.Pos()), fmt.Sprintf(format, a...)})
}

func sel(pkg, name string) ast.Expr {
	return &ast.SelectorExpr{X: ast.NewIdent(pkg), Sel: ast.NewIdent(name)}
}

func (r *fileRewriter) typeOf(e ast.Expr) types.Type {
	if tv, ok := r.info.Types[e]; ok && tv.Type != nil {
		return tv.Type
	}
	if id, ok := e.(*ast.Ident); ok {
		if o := r.info.Uses[id]; o != nil {
			return o.Type()
		}
		if o := r.info.Defs[id]; o != nil {
			return o.Type()
		}
	}
	return nil
}

func (r *fileRewriter) isChan(e ast.Expr) bool {
	t := r.typeOf(e)
	if t == nil {
		return false
	}
	_, ok := t.Underlying().(*types.Chan)
	return ok
}

func (r *fileRewriter) isMap(e ast.Expr) bool {
	t := r.typeOf(e)
	if t == nil {
		return false
	}
	_, ok := t.Underlying().(*types.Map)
	return ok
}

// rewriteImports swaps sync, sync/atomic and crypto/rand for the shims (keeping the
// local identifier) and returns the local name of package time.
func (r *fileRewriter) rewriteImports() {
	for _, imp := range r.file.Imports {
		path, _ := strconv.Unquote(imp.Path.Value)
		repl, name := "", ""
		switch path {
		case "sync":
			repl, name = shim+"vsync", "sync"
		case "sync/atomic":
			repl, name = shim+"vatomic", "atomic"
		case "crypto/rand":
			repl, name = shim+"vrand", "rand"
		case "time":
			r.timeName = "time"
			if imp.Name != nil {
				r.timeName = imp.Name.Name
			}
		}
		if repl != "" {
			if imp.Name != nil {
				if imp.Name.Name == "_" || imp.Name.Name == "." {
					r.gapf(imp, "import %s %q", imp.Name.Name, path)
					continue
				}
				name = imp.Name.Name
			}
			imp.Name = ast.NewIdent(name)
			imp.Path.Value = strconv.Quote(repl)
			imp.EndPos = 0
			r.changed = true
		}
	}
}

func (r *fileRewriter) tmpName(p string) string {
	r.tmp++
	return fmt.Sprintf("__vf_%s%d", p, r.tmp)
}

// chanElem returns the element type expression of a chan type AST.
func (r *fileRewriter) chanTypeExpr(ct *ast.ChanType) ast.Expr {
	r.needs["vsched"] = true
	r.changed = true
	return &ast.StarExpr{X: &ast.IndexExpr{X: sel("vsched", "Chan"), Index: ct.Value}}
}

func (r *fileRewriter) rewriteExpr(e ast.Expr) ast.Expr {
	switch n := e.(type) {
	case *ast.ChanType:
		n.Value = r.rewriteExpr(n.Value)
		return r.chanTypeExpr(n)
	case *ast.SelectorExpr:
		if id, ok := n.X.(*ast.Ident); ok && id.Name == "runtime" && n.Sel.Name == "SetFinalizer" {
			// GC-driven finalizers would start goroutines outside the controlled scheduler.
			r.needs["vsched"] = true
			r.changed = true
			return sel("vsched", "SetFinalizer")
		}
		if id, ok := n.X.(*ast.Ident); ok && r.timeName != "" && id.Name == r.timeName {
			if o, ok := r.info.Uses[id]; ok {
				if _, isPkg := o.(*types.PkgName); !isPkg {
					return n
				}
			}
			switch n.Sel.Name {
			case "Now", "Since", "Until":
				r.needs["vclock"] = true
				r.changed = true
				return sel("vclock", n.Sel.Name)
			case "Sleep", "After", "AfterFunc", "NewTimer", "NewTicker", "Tick":
				r.gapf(n, "time.%s is not instrumented", n.Sel.Name)
			}
		}
		return n
	case *ast.UnaryExpr:
		if n.Op == token.ARROW {
			r.needs["vsched"] = true
			r.changed = true
			return &ast.CallExpr{Fun: &ast.SelectorExpr{X: n.X, Sel: ast.NewIdent("Recv")}}
		}
		return n
	case *ast.CallExpr:
		if id, ok := n.Fun.(*ast.Ident); ok {
			switch id.Name {
			case "make":
				if len(n.Args) >= 1 {
					if ct, ok := n.Args[0].(*ast.ChanType); ok {
						r.needs["vsched"] = true
						r.changed = true
						call := &ast.CallExpr{Fun: &ast.IndexExpr{X: sel("vsched", "NewChan"), Index: ct.Value}, Args: n.Args[1:]}
						return call
					}
					if r.isChanTypeExpr(n.Args[0]) {
						r.gapf(n, "make of a named channel type")
					}
				}
			case "close":
				if len(n.Args) == 1 && (r.isChan(n.Args[0]) || r.looksChan(n.Args[0])) {
					r.needs["vsched"] = true
					r.changed = true
					return &ast.CallExpr{Fun: &ast.SelectorExpr{X: n.Args[0], Sel: ast.NewIdent("Close")}}
				}
			case "len", "cap":
				if len(n.Args) == 1 && r.isChan(n.Args[0]) {
					r.needs["vsched"] = true
					r.changed = true
					m := "Len"
					if id.Name == "cap" {
						m = "Cap"
					}
					return &ast.CallExpr{Fun: &ast.SelectorExpr{X: n.Args[0], Sel: ast.NewIdent(m)}}
				}
			}
		}
		return n
	}
	return e
}

func (r *fileRewriter) isChanTypeExpr(e ast.Expr) bool {
	if tv, ok := r.info.Types[e]; ok && tv.IsType() && tv.Type != nil {
		_, ok := tv.Type.Underlying().(*types.Chan)
		return ok
	}
	return false
}

// looksChan is the fallback when type information is missing: close() is only defined on channels.
func (r *fileRewriter) looksChan(e ast.Expr) bool { return r.typeOf(e) == nil }

// goStmt rewrites `go f(args)` into a block that evaluates f and the arguments in the
// current goroutine and hands the call to vsched.Go.
func (r *fileRewriter) goStmt(g *ast.GoStmt) ast.Stmt {
	r.needs["vsched"] = true
	r.changed = true
	call := g.Call
	var stmts []ast.Stmt
	fun := call.Fun
	if _, isLit := fun.(*ast.FuncLit); !isLit {
		if _, isIdent := fun.(*ast.Ident); !isIdent || len(call.Args) > 0 {
			fn := r.tmpName("f")
			stmts = append(stmts, &ast.AssignStmt{Lhs: []ast.Expr{ast.NewIdent(fn)}, Tok: token.DEFINE, Rhs: []ast.Expr{fun}})
			fun = ast.NewIdent(fn)
		}
	}
	var args []ast.Expr
	for _, a := range call.Args {
		an := r.tmpName("a")
		stmts = append(stmts, &ast.AssignStmt{Lhs: []ast.Expr{ast.NewIdent(an)}, Tok: token.DEFINE, Rhs: []ast.Expr{a}})
		args = append(args, ast.NewIdent(an))
	}
	inner := &ast.CallExpr{Fun: fun, Args: args, Ellipsis: call.Ellipsis}
	if call.Ellipsis == token.NoPos {
		inner.Ellipsis = token.NoPos
	}
	lit := &ast.FuncLit{Type: &ast.FuncType{Params: &ast.FieldList{}}, Body: &ast.BlockStmt{List: []ast.Stmt{&ast.ExprStmt{X: inner}}}}
	stmts = append(stmts, &ast.ExprStmt{X: &ast.CallExpr{Fun: sel("vsched", "Go"), Args: []ast.Expr{lit}}})
	return &ast.BlockStmt{List: stmts}
}

func (r *fileRewriter) rangeStmt(rs *ast.RangeStmt) ast.Stmt {
	switch {
	case r.isChan(rs.X):
		r.needs["vsched"] = true
		r.changed = true
		ch := r.tmpName("ch")
		okn := r.tmpName("ok")
		var key ast.Expr = ast.NewIdent("_")
		if rs.Key != nil {
			key = rs.Key
		}
		tok := token.DEFINE
		recv := &ast.AssignStmt{Lhs: []ast.Expr{key, ast.NewIdent(okn)}, Tok: tok,
			Rhs: []ast.Expr{&ast.CallExpr{Fun: &ast.SelectorExpr{X: ast.NewIdent(ch), Sel: ast.NewIdent("Recv2")}}}}
		var pre []ast.Stmt
		if rs.Key != nil && rs.Tok == token.ASSIGN {
			// for k = range ch : receive into a temp, then assign
			tmpv := r.tmpName("v")
			recv.Lhs[0] = ast.NewIdent(tmpv)
			pre = append(pre, &ast.AssignStmt{Lhs: []ast.Expr{rs.Key}, Tok: token.ASSIGN, Rhs: []ast.Expr{ast.NewIdent(tmpv)}})
		}
		brk := &ast.IfStmt{Cond: &ast.UnaryExpr{Op: token.NOT, X: ast.NewIdent(okn)}, Body: &ast.BlockStmt{List: []ast.Stmt{&ast.BranchStmt{Tok: token.BREAK}}}}
		body := append([]ast.Stmt{recv, brk}, pre...)
		body = append(body, rs.Body.List...)
		loop := &ast.ForStmt{Body: &ast.BlockStmt{List: body}}
		return &ast.BlockStmt{List: []ast.Stmt{
			&ast.AssignStmt{Lhs: []ast.Expr{ast.NewIdent(ch)}, Tok: token.DEFINE, Rhs: []ast.Expr{rs.X}},
			loop,
		}}
	case r.isMap(rs.X):
		if rs.Key == nil && rs.Value == nil {
			return rs // `for range m` : only the count matters
		}
		r.needs["vmap"] = true
		r.changed = true
		m := r.tmpName("m")
		kn := r.tmpName("k")
		okn := r.tmpName("ok")
		var body []ast.Stmt
		var valLhs ast.Expr = ast.NewIdent("_")
		if rs.Value != nil {
			valLhs = rs.Value
		}
		if rs.Tok == token.DEFINE {
			body = append(body, &ast.AssignStmt{Lhs: []ast.Expr{valLhs, ast.NewIdent(okn)}, Tok: token.DEFINE,
				Rhs: []ast.Expr{&ast.IndexExpr{X: ast.NewIdent(m), Index: ast.NewIdent(kn)}}})
			body = append(body, &ast.IfStmt{Cond: &ast.UnaryExpr{Op: token.NOT, X: ast.NewIdent(okn)}, Body: &ast.BlockStmt{List: []ast.Stmt{&ast.BranchStmt{Tok: token.CONTINUE}}}})
			if id, ok := rs.Key.(*ast.Ident); ok && id.Name != "_" {
				body = append(body, &ast.AssignStmt{Lhs: []ast.Expr{rs.Key}, Tok: token.DEFINE, Rhs: []ast.Expr{ast.NewIdent(kn)}},
					&ast.AssignStmt{Lhs: []ast.Expr{ast.NewIdent("_")}, Tok: token.ASSIGN, Rhs: []ast.Expr{rs.Key}})
			}
			if id, ok := rs.Value.(*ast.Ident); ok && id.Name != "_" {
				body = append(body, &ast.AssignStmt{Lhs: []ast.Expr{ast.NewIdent("_")}, Tok: token.ASSIGN, Rhs: []ast.Expr{id}})
			}
		} else {
			vt := r.tmpName("v")
			body = append(body, &ast.AssignStmt{Lhs: []ast.Expr{ast.NewIdent(vt), ast.NewIdent(okn)}, Tok: token.DEFINE,
				Rhs: []ast.Expr{&ast.IndexExpr{X: ast.NewIdent(m), Index: ast.NewIdent(kn)}}})
			body = append(body, &ast.IfStmt{Cond: &ast.UnaryExpr{Op: token.NOT, X: ast.NewIdent(okn)}, Body: &ast.BlockStmt{List: []ast.Stmt{&ast.BranchStmt{Tok: token.CONTINUE}}}})
			if rs.Key != nil {
				body = append(body, &ast.AssignStmt{Lhs: []ast.Expr{rs.Key}, Tok: token.ASSIGN, Rhs: []ast.Expr{ast.NewIdent(kn)}})
			}
			if rs.Value != nil {
				body = append(body, &ast.AssignStmt{Lhs: []ast.Expr{rs.Value}, Tok: token.ASSIGN, Rhs: []ast.Expr{ast.NewIdent(vt)}})
			} else {
				body = append(body, &ast.AssignStmt{Lhs: []ast.Expr{ast.NewIdent("_")}, Tok: token.ASSIGN, Rhs: []ast.Expr{ast.NewIdent(vt)}})
			}
		}
		body = append(body, rs.Body.List...)
		loop := &ast.RangeStmt{Key: ast.NewIdent("_"), Value: ast.NewIdent(kn), Tok: token.DEFINE,
			X:    &ast.CallExpr{Fun: sel("vmap", "Keys"), Args: []ast.Expr{ast.NewIdent(m)}},
			Body: &ast.BlockStmt{List: body}}
		return &ast.BlockStmt{List: []ast.Stmt{
			&ast.AssignStmt{Lhs: []ast.Expr{ast.NewIdent(m)}, Tok: token.DEFINE, Rhs: []ast.Expr{rs.X}},
			loop,
		}}
	}
	return rs
}

// walk rewrites a node tree in place (statements that need replacing are swapped in
// their parent lists).
func (r *fileRewriter) walkStmts(list []ast.Stmt) []ast.Stmt {
	for i, s := range list {
		list[i] = r.walkStmt(s)
	}
	return list
}

func (r *fileRewriter) walkStmt(s ast.Stmt) ast.Stmt {
	if s == nil {
		return nil
	}
	switch n := s.(type) {
	case *ast.GoStmt:
		r.walkExprIn(n.Call)
		return r.goStmt(n)
	case *ast.SendStmt:
		r.needs["vsched"] = true
		r.changed = true
		n.Chan = r.walkExpr(n.Chan)
		n.Value = r.walkExpr(n.Value)
		return &ast.ExprStmt{X: &ast.CallExpr{Fun: &ast.SelectorExpr{X: n.Chan, Sel: ast.NewIdent("Send")}, Args: []ast.Expr{n.Value}}}
	case *ast.SelectStmt:
		r.gapf(n, "select statement")
		return n
	case *ast.RangeStmt:
		n.X = r.walkExpr(n.X)
		n.Body.List = r.walkStmts(n.Body.List)
		return r.rangeStmt(n)
	case *ast.AssignStmt:
		// v, ok := <-c
		if len(n.Lhs) == 2 && len(n.Rhs) == 1 {
			if u, ok := n.Rhs[0].(*ast.UnaryExpr); ok && u.Op == token.ARROW {
				r.needs["vsched"] = true
				r.changed = true
				n.Rhs[0] = &ast.CallExpr{Fun: &ast.SelectorExpr{X: r.walkExpr(u.X), Sel: ast.NewIdent("Recv2")}}
				return n
			}
		}
		for i := range n.Lhs {
			n.Lhs[i] = r.walkExpr(n.Lhs[i])
		}
		for i := range n.Rhs {
			n.Rhs[i] = r.walkExpr(n.Rhs[i])
		}
		return n
	case *ast.BlockStmt:
		n.List = r.walkStmts(n.List)
		return n
	case *ast.IfStmt:
		n.Init = r.walkStmt(n.Init)
		n.Cond = r.walkExpr(n.Cond)
		n.Body.List = r.walkStmts(n.Body.List)
		if n.Else != nil {
			n.Else = r.walkStmt(n.Else)
		}
		return n
	case *ast.ForStmt:
		n.Init = r.walkStmt(n.Init)
		if n.Cond != nil {
			n.Cond = r.walkExpr(n.Cond)
		}
		n.Post = r.walkStmt(n.Post)
		n.Body.List = r.walkStmts(n.Body.List)
		return n
	case *ast.SwitchStmt:
		n.Init = r.walkStmt(n.Init)
		if n.Tag != nil {
			n.Tag = r.walkExpr(n.Tag)
		}
		n.Body.List = r.walkStmts(n.Body.List)
		return n
	case *ast.TypeSwitchStmt:
		n.Init = r.walkStmt(n.Init)
		n.Assign = r.walkStmt(n.Assign)
		n.Body.List = r.walkStmts(n.Body.List)
		return n
	case *ast.CaseClause:
		for i := range n.List {
			n.List[i] = r.walkExpr(n.List[i])
		}
		n.Body = r.walkStmts(n.Body)
		return n
	case *ast.LabeledStmt:
		n.Stmt = r.walkStmt(n.Stmt)
		return n
	case *ast.ExprStmt:
		n.X = r.walkExpr(n.X)
		return n
	case *ast.ReturnStmt:
		for i := range n.Results {
			n.Results[i] = r.walkExpr(n.Results[i])
		}
		return n
	case *ast.DeferStmt:
		// (defer close(ch) must become defer ch.Close(): rewrite the call itself, not only its children)
		if ne, ok := r.walkExpr(n.Call).(*ast.CallExpr); ok {
			n.Call = ne
		} else {
			r.walkExprIn(n.Call)
		}
		return n
	case *ast.DeclStmt:
		r.walkDecl(n.Decl)
		return n
	case *ast.IncDecStmt:
		n.X = r.walkExpr(n.X)
		return n
	case *ast.CommClause:
		return n
	}
	return s
}

// walkExprIn rewrites the children of a call expression in place (the call node itself
// must stay a *ast.CallExpr, e.g. in go/defer statements).
func (r *fileRewriter) walkExprIn(c *ast.CallExpr) {
	c.Fun = r.walkExpr(c.Fun)
	for i := range c.Args {
		c.Args[i] = r.walkExpr(c.Args[i])
	}
}

func (r *fileRewriter) walkFieldList(fl *ast.FieldList) {
	if fl == nil {
		return
	}
	for _, f := range fl.List {
		f.Type = r.walkExpr(f.Type)
	}
}

func (r *fileRewriter) walkExpr(e ast.Expr) ast.Expr {
	if e == nil {
		return nil
	}
	switch n := e.(type) {
	case *ast.CallExpr:
		// make/close/len on channels are decided before the children are rewritten
		out := r.rewriteExpr(n)
		if c, ok := out.(*ast.CallExpr); ok {
			c.Fun = r.walkExpr(c.Fun)
			for i := range c.Args {
				c.Args[i] = r.walkExpr(c.Args[i])
			}
			return c
		}
		return out
	case *ast.ChanType:
		return r.rewriteExpr(n)
	case *ast.SelectorExpr:
		n.X = r.walkExpr(n.X)
		return r.rewriteExpr(n)
	case *ast.UnaryExpr:
		n.X = r.walkExpr(n.X)
		return r.rewriteExpr(n)
	case *ast.BinaryExpr:
		n.X = r.walkExpr(n.X)
		n.Y = r.walkExpr(n.Y)
		return n
	case *ast.ParenExpr:
		n.X = r.walkExpr(n.X)
		return n
	case *ast.StarExpr:
		n.X = r.walkExpr(n.X)
		return n
	case *ast.IndexExpr:
		n.X = r.walkExpr(n.X)
		n.Index = r.walkExpr(n.Index)
		return n
	case *ast.IndexListExpr:
		n.X = r.walkExpr(n.X)
		for i := range n.Indices {
			n.Indices[i] = r.walkExpr(n.Indices[i])
		}
		return n
	case *ast.SliceExpr:
		n.X = r.walkExpr(n.X)
		n.Low = r.walkExpr(n.Low)
		n.High = r.walkExpr(n.High)
		n.Max = r.walkExpr(n.Max)
		return n
	case *ast.TypeAssertExpr:
		n.X = r.walkExpr(n.X)
		n.Type = r.walkExpr(n.Type)
		return n
	case *ast.KeyValueExpr:
		n.Key = r.walkExpr(n.Key)
		n.Value = r.walkExpr(n.Value)
		return n
	case *ast.CompositeLit:
		n.Type = r.walkExpr(n.Type)
		for i := range n.Elts {
			n.Elts[i] = r.walkExpr(n.Elts[i])
		}
		return n
	case *ast.FuncLit:
		r.walkFieldList(n.Type.Params)
		r.walkFieldList(n.Type.Results)
		n.Body.List = r.walkStmts(n.Body.List)
		return n
	case *ast.ArrayType:
		n.Elt = r.walkExpr(n.Elt)
		return n
	case *ast.MapType:
		n.Key = r.walkExpr(n.Key)
		n.Value = r.walkExpr(n.Value)
		return n
	case *ast.StructType:
		r.walkFieldList(n.Fields)
		return n
	case *ast.FuncType:
		r.walkFieldList(n.Params)
		r.walkFieldList(n.Results)
		return n
	case *ast.InterfaceType:
		r.walkFieldList(n.Methods)
		return n
	case *ast.Ellipsis:
		n.Elt = r.walkExpr(n.Elt)
		return n
	}
	return e
}

func (r *fileRewriter) walkDecl(d ast.Decl) {
	switch n := d.(type) {
	case *ast.GenDecl:
		for _, s := range n.Specs {
			switch sp := s.(type) {
			case *ast.ValueSpec:
				sp.Type = r.walkExpr(sp.Type)
				for i := range sp.Values {
					sp.Values[i] = r.walkExpr(sp.Values[i])
				}
			case *ast.TypeSpec:
				sp.Type = r.walkExpr(sp.Type)
			}
		}
	case *ast.FuncDecl:
		r.walkFieldList(n.Recv)
		r.walkFieldList(n.Type.Params)
		r.walkFieldList(n.Type.Results)
		if n.Body != nil {
			n.Body.List = r.walkStmts(n.Body.List)
		}
	}
}

func (r *fileRewriter) addImports() {
	var names []string
	for n := range r.needs {
		names = append(names, n)
	}
	sort.Strings(names)
	for _, n := range names {
		spec := &ast.ImportSpec{Name: ast.NewIdent(n), Path: &ast.BasicLit{Kind: token.STRING, Value: strconv.Quote(shim + n)}}
		decl := &ast.GenDecl{Tok: token.IMPORT, Specs: []ast.Spec{spec}}
		r.file.Decls = append([]ast.Decl{decl}, r.file.Decls...)
		r.file.Imports = append(r.file.Imports, spec)
	}
}

// stripComments keeps only the comments in front of the package clause (build
// constraints, nolint headers): free-floating comments are re-attached to the wrong
// nodes by the printer once statements have been replaced.
func (r *fileRewriter) stripComments() {
	var keep []*ast.CommentGroup
	for _, cg := range r.file.Comments {
		if cg.End() < r.file.Package {
			keep = append(keep, cg)
			continue
		}
		for _, c := range cg.List {
			if strings.HasPrefix(c.Text, "//go:") && !strings.HasPrefix(c.Text, "//go:generate") {
				r.gapf(cg, "compiler directive %s would be lost", c.Text)
			}
		}
	}
	r.file.Comments = keep
	r.file.Doc = nil
}

// dropUnusedTime removes the time import if no reference to it is left.
func (r *fileRewriter) dropUnusedTime() {
	if r.timeName == "" {
		return
	}
	r.dropUnused(r.timeName)
}

func (r *fileRewriter) dropUnused(name string) {
	used := false
	found := false
	for _, is := range r.file.Imports {
		if p, _ := strconv.Unquote(is.Path.Value); p == name && is.Name == nil {
			found = true
		}
	}
	if !found {
		return
	}
	ast.Inspect(r.file, func(n ast.Node) bool {
		if s, ok := n.(*ast.SelectorExpr); ok {
			if id, ok := s.X.(*ast.Ident); ok && id.Name == name {
				used = true
			}
		}
		return !used
	})
	if used {
		return
	}
	for _, d := range r.file.Decls {
		gd, ok := d.(*ast.GenDecl)
		if !ok || gd.Tok != token.IMPORT {
			continue
		}
		var keep []ast.Spec
		for _, s := range gd.Specs {
			is := s.(*ast.ImportSpec)
			if p, _ := strconv.Unquote(is.Path.Value); p == name {
				continue
			}
			keep = append(keep, s)
		}
		gd.Specs = keep
	}
}

type fakeImporter struct{ pkgs map[string]*types.Package }

func (f *fakeImporter) Import(path string) (*types.Package, error) {
	if p, ok := f.pkgs[path]; ok {
		return p, nil
	}
	name := filepath.Base(path)
	p := types.NewPackage(path, name)
	p.MarkComplete()
	f.pkgs[path] = p
	return p, nil
}

type overlay struct {
	Replace map[string]string
}

func main() {
	repo := flag.String("repo", "/repo", "repository root")
	out := flag.String("out", "", "output directory for rewritten files")
	extra := flag.String("extra", "", "directory tree of extra files: <extra>/<repo-relative dir>/<name>.go.txt")
	flag.Parse()
	if *out == "" {
		fmt.Fprintln(os.Stderr, "gen: -out required")
		os.Exit(2)
	}
	if abs, err := filepath.Abs(*out); err == nil {
		*out = abs
	}
	if abs, err := filepath.Abs(*repo); err == nil {
		*repo = abs
	}
	os.RemoveAll(*out)
	if err := os.MkdirAll(*out, 0o755); err != nil {
		panic(err)
	}
	ov := overlay{Replace: map[string]string{}}
	var allGaps []gap
	nfiles, nchanged := 0, 0
	for _, dir := range instrumented {
		abs := filepath.Join(*repo, dir)
		ents, err := os.ReadDir(abs)
		if err != nil {
			continue
		}
		fset := token.NewFileSet()
		var files []*ast.File
		var names []string
		for _, e := range ents {
			n := e.Name()
			if e.IsDir() || !strings.HasSuffix(n, ".go") || strings.HasSuffix(n, "_test.go") {
				continue
			}
			if skipFiles[filepath.Join(dir, n)] {
				continue
			}
			f, err := parser.ParseFile(fset, filepath.Join(abs, n), nil, parser.ParseComments)
			if err != nil {
				fmt.Fprintf(os.Stderr, "gen: parse %s: %v\n", filepath.Join(abs, n), err)
				os.Exit(2)
			}
			if hasBuildTagExcluding(f) {
				continue
			}
			files = append(files, f)
			names = append(names, n)
		}
		if len(files) == 0 {
			continue
		}
		info := &types.Info{Types: map[ast.Expr]types.TypeAndValue{}, Uses: map[*ast.Ident]types.Object{}, Defs: map[*ast.Ident]types.Object{}}
		conf := types.Config{Importer: &fakeImporter{pkgs: map[string]*types.Package{}}, Error: func(error) {}, FakeImportC: true}
		conf.Check(dir, fset, files, info) // best effort: local chan/map types resolve even though imports are stubs
		for i, f := range files {
			nfiles++
			r := &fileRewriter{fset: fset, file: f, info: info, needs: map[string]bool{}}
			r.rewriteImports()
			for _, d := range f.Decls {
				r.walkDecl(d)
			}
			allGaps = append(allGaps, r.gaps...)
			if !r.changed {
				continue
			}
			r.addImports()
			r.dropUnusedTime()
			r.dropUnused("runtime")
			r.stripComments()
			var buf bytes.Buffer
			fmt.Fprintf(&buf, "// Code generated by asherahverif/cmd/gen from %s; DO NOT EDIT.\n", filepath.Join(dir, names[i]))
			if err := format.Node(&buf, fset, f); err != nil {
				fmt.Fprintf(os.Stderr, "gen: print %s: %v\n", names[i], err)
				os.Exit(2)
			}
			dst := filepath.Join(*out, strings.ReplaceAll(dir, "/", "__")+"__"+names[i])
			if err := os.WriteFile(dst, buf.Bytes(), 0o644); err != nil {
				panic(err)
			}
			ov.Replace[filepath.Join(abs, names[i])] = dst
			nchanged++
		}
	}
	// extra files
	if *extra != "" {
		filepath.Walk(*extra, func(p string, fi os.FileInfo, err error) error {
			if err != nil || fi.IsDir() || !strings.HasSuffix(p, ".go.txt") {
				return nil
			}
			rel, _ := filepath.Rel(*extra, p)
			target := filepath.Join(*repo, strings.TrimSuffix(rel, ".txt"))
			if _, err := os.Stat(filepath.Dir(target)); err != nil {
				return nil
			}
			dst := filepath.Join(*out, "extra__"+strings.ReplaceAll(strings.TrimSuffix(rel, ".txt"), "/", "__"))
			b, _ := os.ReadFile(p)
			os.WriteFile(dst, b, 0o644)
			ov.Replace[target] = dst
			return nil
		})
	}
	if len(allGaps) > 0 {
		for _, g := range allGaps {
			fmt.Printf("INSTRUMENTATION-GAP %s:%d %s\n", g.pos.Filename, g.pos.Line, g.what)
		}
		os.Exit(3)
	}
	b, _ := json.MarshalIndent(ov, "", " ")
	if err := os.WriteFile(filepath.Join(*out, "overlay.json"), b, 0o644); err != nil {
		panic(err)
	}
	fmt.Printf("gen: %d files parsed, %d rewritten, %d overlay entries\n", nfiles, nchanged, len(ov.Replace))
}

func hasBuildTagExcluding(f *ast.File) bool {
	for _, cg := range f.Comments {
		if cg.Pos() > f.Package {
			break
		}
		for _, c := range cg.List {
			if strings.HasPrefix(c.Text, "//go:build") && (strings.Contains(c.Text, "ignore") || strings.Contains(c.Text, "integration")) {
				return true
			}
		}
	}
	return false
}
