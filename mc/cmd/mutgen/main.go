// mutgen lists simple source mutants (statement deletion, condition negation, comparison boundary / equality swaps) of
// the repository files given on the command line, as JSON lines {file, start, end, repl, kind, line, text}.
// It is a development aid of /verif (finding code whose change no check notices), not part of any registered check.
package main

import (
	"encoding/json"
	"fmt"
	"go/ast"
	"go/parser"
	"go/token"
	"os"
	"strings"
)

type mutant struct {
	File  string `json:"file"`
	Start int    `json:"start"`
	End   int    `json:"end"`
	Repl  string `json:"repl"`
	Kind  string `json:"kind"`
	Line  int    `json:"line"`
	Text  string `json:"text"`
}

func main() {
	enc := json.NewEncoder(os.Stdout)
	for _, path := range os.Args[1:] {
		src, err := os.ReadFile(path)
		if err != nil {
			fmt.Fprintln(os.Stderr, err)
			os.Exit(2)
		}
		fset := token.NewFileSet()
		f, err := parser.ParseFile(fset, path, src, 0)
		if err != nil {
			fmt.Fprintln(os.Stderr, err)
			os.Exit(2)
		}
		off := func(p token.Pos) int { return fset.Position(p).Offset }
		text := func(n ast.Node) string { return string(src[off(n.Pos()):off(n.End())]) }
		emit := func(n ast.Node, repl, kind string) {
			t := text(n)
			if len(t) > 100 {
				t = t[:100]
			}
			enc.Encode(mutant{path, off(n.Pos()), off(n.End()), repl, kind, fset.Position(n.Pos()).Line, strings.ReplaceAll(t, "\n", " ")})
		}
		boring := func(s string) bool {
			for _, b := range []string{"log.Debugf", "UpdateSince", "metrics.", "log.Print", "Timer"} {
				if strings.Contains(s, b) {
					return true
				}
			}
			return false
		}
		ast.Inspect(f, func(n ast.Node) bool {
			switch x := n.(type) {
			case *ast.ExprStmt:
				if _, ok := x.X.(*ast.CallExpr); ok && !boring(text(x)) {
					emit(x, "{}", "del-call")
				}
			case *ast.DeferStmt:
				if !boring(text(x)) {
					emit(x, "{}", "del-defer")
				}
			case *ast.IncDecStmt:
				emit(x, "{}", "del-incdec")
			case *ast.AssignStmt:
				if x.Tok == token.ASSIGN && len(x.Lhs) == 1 {
					switch x.Lhs[0].(type) {
					case *ast.SelectorExpr, *ast.IndexExpr:
						emit(x, "{}", "del-assign")
					}
				}
			case *ast.IfStmt:
				if !boring(text(x.Cond)) {
					emit(x.Cond, "!("+text(x.Cond)+")", "neg-if")
				}
			case *ast.ForStmt:
				if x.Cond != nil && x.Init == nil && x.Post == nil {
					// a waiting loop turned into a single check
					emit(x.Cond, "!("+text(x.Cond)+")", "neg-for")
				}
			case *ast.BinaryExpr:
				swap := map[token.Token]string{token.LSS: "<=", token.LEQ: "<", token.GTR: ">=", token.GEQ: ">", token.EQL: "!=", token.NEQ: "=="}
				if r, ok := swap[x.Op]; ok {
					t := text(x)
					if strings.Contains(t, "err ") || strings.Contains(t, "nil") {
						return true // error / nil tests: covered by neg-if
					}
					emit(x, text(x.X)+" "+r+" "+text(x.Y), "op-"+x.Op.String())
				}
			}
			return true
		})
	}
}
