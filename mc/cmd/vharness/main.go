// vharness runs one property check against the instrumented build of /repo.
//
//	vharness C08 -tier quick|thorough [-seed N] [-verif /verif] [-replay file] [-budget seconds]
package main

import (
	"flag"
	"fmt"
	"os"
	"strconv"
	"time"

	"asherahverif/harness"
)

func main() {
	if len(os.Args) < 2 {
		fmt.Fprintln(os.Stderr, "usage: vharness <property> [flags]")
		os.Exit(2)
	}
	prop := os.Args[1]
	if prop == "kworker" {
		harness.KWorkerMain(os.Args[2], os.Stdin, os.Stdout)
		return
	}
	if prop == "race" {
		n, _ := strconv.Atoi(os.Args[3])
		harness.RaceMain(os.Args[2], n)
		return
	}
	if prop == "kdump" {
		harness.KDump(os.Args[2], os.Args[3:])
		return
	}
	fs := flag.NewFlagSet("vharness", flag.ExitOnError)
	tier := fs.String("tier", "quick", "quick | thorough")
	seed := fs.Int64("seed", 0, "seed (only permutes visiting order where used)")
	verif := fs.String("verif", "/verif", "verification directory")
	replay := fs.String("replay", "", "replay file")
	budget := fs.Int("budget", 0, "internal wall-clock budget in seconds (0 = tier default)")
	childOut := fs.String("childout", "", "internal: write the raw report here (child process of a scenario-parallel run)")
	fs.Parse(os.Args[2:])
	if s := os.Getenv("VERIF_SEED"); s != "" && *seed == 0 {
		if v, err := strconv.ParseInt(s, 10, 64); err == nil {
			*seed = v
		}
	}
	chk, ok := harness.Checks[prop]
	if !ok {
		fmt.Fprintf(os.Stderr, "unknown property %s\n", prop)
		os.Exit(2)
	}
	if *replay != "" {
		os.Exit(harness.Replay(prop, *replay))
	}
	r := harness.NewReport(prop, *tier, chk.Level, *seed)
	b := *budget
	if b == 0 {
		b = chk.QuickBudget
		if *tier == "thorough" {
			b = chk.ThoroughBudget
		}
	}
	if b > 0 {
		r.Deadline = time.Now().Add(time.Duration(b) * time.Second)
	}
	chk.Run(r)
	if *childOut != "" {
		r.WriteChild(*childOut)
		return
	}
	os.Exit(r.Finish(*verif))
}
