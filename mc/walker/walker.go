// Package walker serialises the complete object graph reachable from a set of roots of the
// real implementation into a canonical string: pointers are numbered by first visit, maps
// are sorted, timestamps are printed as virtual seconds, lock words and functions are
// skipped. It is the state key of the explicit-state searches, so that hidden state
// (policy lists, reference counts, loadedAt stamps, latest aliases) is part of the key
// without a hand-picked projection.
package walker

import (
	"fmt"
	"reflect"
	"sort"
	"strings"
	"time"
	"unsafe"
)

// Special lets the caller render selected types itself. It returns (text, true) when it
// handled the value.
type Special func(v reflect.Value) (string, bool)

// Walker holds the numbering of one dump.
type Walker struct {
	sb      strings.Builder
	seen    map[unsafe.Pointer]int
	special Special
	// OnPointer is called for every pointer first visited (used to collect reachable secrets).
	OnPointer func(v reflect.Value, path string)
	skipPkgs  []string
	depth     int
}

func New(special Special) *Walker {
	return &Walker{seen: map[unsafe.Pointer]int{}, special: special,
		skipPkgs: []string{"github.com/rcrowley/go-metrics", "log", "context", "github.com/godaddy/asherah/go/appencryption/pkg/log"}}
}

var timeType = reflect.TypeOf(time.Time{})

// Root dumps one root value under a label.
func (w *Walker) Root(label string, v interface{}) {
	w.sb.WriteString(label)
	w.sb.WriteString("=")
	w.walk(reflect.ValueOf(v), label)
	w.sb.WriteString("\n")
}

// Raw appends a literal line.
func (w *Walker) Raw(s string) { w.sb.WriteString(s); w.sb.WriteString("\n") }

func (w *Walker) String() string { return w.sb.String() }

// access makes a value obtained through unexported fields usable.
func access(v reflect.Value) reflect.Value {
	if v.CanInterface() {
		return v
	}
	if v.CanAddr() {
		return reflect.NewAt(v.Type(), unsafe.Pointer(v.UnsafeAddr())).Elem()
	}
	// not addressable (map values reached through an unexported path): copy bit-wise
	nv := reflect.New(v.Type()).Elem()
	// reflect refuses Set from unexported; go through the unsafe header copy
	src := valuePointer(v)
	if src != nil {
		typedCopy(nv, src)
		return nv
	}
	return v
}

// valuePointer returns a pointer to the data of a non-addressable value by boxing it
// through reflect's internal representation: we re-read it via a map/array copy instead.
func valuePointer(v reflect.Value) unsafe.Pointer {
	// reflect.Value layout: typ, ptr, flag. For values larger than a word (or not
	// pointer-shaped) ptr points at the data; for pointer-shaped values ptr IS the data.
	type rv struct {
		typ  unsafe.Pointer
		ptr  unsafe.Pointer
		flag uintptr
	}
	r := (*rv)(unsafe.Pointer(&v))
	const flagIndir = 1 << 7
	if r.flag&flagIndir != 0 {
		return r.ptr
	}
	// pointer-shaped: the word itself is the value; return address of the word
	return unsafe.Pointer(&r.ptr)
}

func typedCopy(dst reflect.Value, src unsafe.Pointer) {
	size := dst.Type().Size()
	d := unsafe.Pointer(dst.UnsafeAddr())
	copy(unsafe.Slice((*byte)(d), size), unsafe.Slice((*byte)(src), size))
}

func (w *Walker) skipType(t reflect.Type) bool {
	p := t.PkgPath()
	for _, s := range w.skipPkgs {
		if p == s || strings.HasPrefix(p, s+"/") {
			return true
		}
	}
	return false
}

func (w *Walker) walk(v reflect.Value, path string) {
	if !v.IsValid() {
		w.sb.WriteString("invalid")
		return
	}
	w.depth++
	defer func() { w.depth-- }()
	if w.depth > 200 {
		w.sb.WriteString("<deep>")
		return
	}
	v = access(v)
	t := v.Type()
	if (v.Kind() == reflect.Struct || v.Kind() == reflect.Array) && !v.CanAddr() && v.CanInterface() {
		// values out of maps / interfaces: make an addressable copy so that unexported fields can be read
		nv := reflect.New(t).Elem()
		nv.Set(v)
		v = nv
	}
	if w.special != nil {
		if s, ok := w.special(v); ok {
			w.sb.WriteString(s)
			return
		}
	}
	if t == timeType {
		tm := v.Interface().(time.Time)
		if tm.IsZero() {
			w.sb.WriteString("t0")
		} else {
			fmt.Fprintf(&w.sb, "t%d", tm.UnixNano()/1e6)
		}
		return
	}
	if w.skipType(t) {
		w.sb.WriteString("~")
		return
	}
	switch v.Kind() {
	case reflect.Bool:
		fmt.Fprintf(&w.sb, "%v", v.Bool())
	case reflect.Int, reflect.Int8, reflect.Int16, reflect.Int32, reflect.Int64:
		fmt.Fprintf(&w.sb, "%d", v.Int())
	case reflect.Uint, reflect.Uint8, reflect.Uint16, reflect.Uint32, reflect.Uint64, reflect.Uintptr:
		fmt.Fprintf(&w.sb, "%d", v.Uint())
	case reflect.Float32, reflect.Float64:
		fmt.Fprintf(&w.sb, "%g", v.Float())
	case reflect.String:
		fmt.Fprintf(&w.sb, "%q", v.String())
	case reflect.Func, reflect.Chan, reflect.UnsafePointer, reflect.Complex64, reflect.Complex128:
		w.sb.WriteString("~")
	case reflect.Ptr:
		if v.IsNil() {
			w.sb.WriteString("nil")
			return
		}
		p := v.UnsafePointer()
		if n, ok := w.seen[p]; ok {
			fmt.Fprintf(&w.sb, "#%d", n)
			return
		}
		n := len(w.seen) + 1
		w.seen[p] = n
		if w.OnPointer != nil {
			w.OnPointer(v, path)
		}
		fmt.Fprintf(&w.sb, "&%d:", n)
		w.walk(v.Elem(), path)
	case reflect.Interface:
		if v.IsNil() {
			w.sb.WriteString("nil")
			return
		}
		e := v.Elem()
		fmt.Fprintf(&w.sb, "(%s)", e.Type().String())
		w.walk(e, path)
	case reflect.Struct:
		w.sb.WriteString(t.Name())
		w.sb.WriteString("{")
		for i := 0; i < v.NumField(); i++ {
			f := t.Field(i)
			if i > 0 {
				w.sb.WriteString(",")
			}
			w.sb.WriteString(f.Name)
			w.sb.WriteString(":")
			w.walk(v.Field(i), path+"."+f.Name)
		}
		w.sb.WriteString("}")
	case reflect.Slice:
		if v.IsNil() {
			w.sb.WriteString("nil")
			return
		}
		if t.Elem().Kind() == reflect.Uint8 {
			fmt.Fprintf(&w.sb, "x%x", v.Bytes())
			return
		}
		w.sb.WriteString("[")
		for i := 0; i < v.Len(); i++ {
			if i > 0 {
				w.sb.WriteString(",")
			}
			w.walk(v.Index(i), path)
		}
		w.sb.WriteString("]")
	case reflect.Array:
		w.sb.WriteString("[")
		for i := 0; i < v.Len(); i++ {
			if i > 0 {
				w.sb.WriteString(",")
			}
			w.walk(v.Index(i), path)
		}
		w.sb.WriteString("]")
	case reflect.Map:
		if v.IsNil() {
			w.sb.WriteString("nil")
			return
		}
		type ent struct {
			sortKey string
			k, val  reflect.Value
		}
		var ents []ent
		it := v.MapRange()
		for it.Next() {
			k := it.Key()
			ents = append(ents, ent{sortKey: w.sortKey(k), k: k, val: it.Value()})
		}
		sort.SliceStable(ents, func(i, j int) bool { return ents[i].sortKey < ents[j].sortKey })
		w.sb.WriteString("map{")
		for i, e := range ents {
			if i > 0 {
				w.sb.WriteString(",")
			}
			w.walk(e.k, path)
			w.sb.WriteString("=>")
			w.walk(e.val, path)
		}
		w.sb.WriteString("}")
	default:
		w.sb.WriteString("?")
	}
}

// sortKey renders a map key for ordering without disturbing the pointer numbering: pointer
// keys are ordered by a shallow dump of what they point to.
func (w *Walker) sortKey(k reflect.Value) string {
	k = access(k)
	switch k.Kind() {
	case reflect.String:
		return k.String()
	case reflect.Int, reflect.Int8, reflect.Int16, reflect.Int32, reflect.Int64:
		return fmt.Sprintf("%020d", k.Int()+1<<62)
	case reflect.Uint, reflect.Uint8, reflect.Uint16, reflect.Uint32, reflect.Uint64:
		return fmt.Sprintf("%020d", k.Uint())
	case reflect.Ptr:
		if n, ok := w.seen[k.UnsafePointer()]; ok {
			return fmt.Sprintf("#%09d", n)
		}
		if k.IsNil() {
			return "~nil"
		}
		return "~" + shallow(k.Elem(), 2)
	}
	return shallow(k, 2)
}

// shallow renders only the scalar content of a value (no pointer following beyond the
// given depth, no maps): enough to order pointer-keyed maps deterministically.
func shallow(v reflect.Value, depth int) string {
	v = access(v)
	switch v.Kind() {
	case reflect.Bool:
		return fmt.Sprint(v.Bool())
	case reflect.Int, reflect.Int8, reflect.Int16, reflect.Int32, reflect.Int64:
		return fmt.Sprint(v.Int())
	case reflect.Uint, reflect.Uint8, reflect.Uint16, reflect.Uint32, reflect.Uint64, reflect.Uintptr:
		return fmt.Sprint(v.Uint())
	case reflect.String:
		return fmt.Sprintf("%q", v.String())
	case reflect.Struct:
		if !v.CanAddr() && v.CanInterface() {
			nv := reflect.New(v.Type()).Elem()
			nv.Set(v)
			v = nv
		}
		var sb strings.Builder
		sb.WriteString("{")
		for i := 0; i < v.NumField(); i++ {
			sb.WriteString(shallow(v.Field(i), depth))
			sb.WriteString(",")
		}
		sb.WriteString("}")
		return sb.String()
	case reflect.Ptr, reflect.Interface:
		if v.IsNil() || depth == 0 {
			return "*"
		}
		return "*" + shallow(v.Elem(), depth-1)
	}
	return "_"
}
