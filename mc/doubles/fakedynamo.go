package doubles

import (
	"asherahverif/shim/vsched"
	"context"
	"errors"
	"fmt"
	"regexp"
	"sort"
	"strconv"
	"strings"

	ddbv2 "github.com/aws/aws-sdk-go-v2/service/dynamodb"
	typesv2 "github.com/aws/aws-sdk-go-v2/service/dynamodb/types"
	awsv1 "github.com/aws/aws-sdk-go/aws"
	"github.com/aws/aws-sdk-go/aws/awserr"
	reqv1 "github.com/aws/aws-sdk-go/aws/request"
	ddbv1 "github.com/aws/aws-sdk-go/service/dynamodb"
)

// AV is an SDK-neutral DynamoDB attribute value.
type AV struct {
	S    *string
	N    *string
	BOOL *bool
	B    []byte
	NULL bool
	M    map[string]*AV
	L    []*AV
}

// FakeDynamo evaluates requests semantically: table name, key schema (Id:S, Created:N),
// condition expressions, key conditions with name/value placeholders, projection,
// ScanIndexForward, Limit. Reads are EVENTUALLY consistent unless ConsistentRead is true:
// a non-consistent read is served from the table as it was before the last write.
type FakeDynamo struct {
	Tables map[string]*DynTable
	Region string
	Log    []string
	// FailReads > 0: every read request is answered with InternalServerError (HTTP 500) FailReads times before it is
	// served; a retry that the plugin sends after such an error is served normally (and is stale unless it asks for
	// a consistent read).
	FailReads int
	failed    map[string]int
	// Unsupported collects expressions outside the fake's grammar (reported as a machinery gap, not a violation).
	Unsupported []string
	obj         vsched.Obj
}

type DynTable struct {
	Items []map[string]*AV // current
	Prev  []map[string]*AV // before the last write (what a lagging replica still shows)
}

// enter is the transport: a request reaches the endpoint at a scheduling point of the explorer (the request object is
// read only afterwards, as a real client serialises it when it is sent), and the fake itself is not thread-safe.
func (f *FakeDynamo) enter(kind string) func() {
	unlock := vsched.LockDoubles()
	if vsched.Active() {
		vsched.Point(&vsched.Op{Kind: kind, Obj: &f.obj, Ext: true})
	}
	return unlock
}

func NewFakeDynamo(region string, tables ...string) *FakeDynamo {
	f := &FakeDynamo{Tables: map[string]*DynTable{}, Region: region}
	for _, t := range tables {
		f.Tables[t] = &DynTable{}
	}
	return f
}

// DynError is a service error with a code.
type DynError struct {
	Code string
	Msg  string
	Item map[string]*AV // the existing item of a failed conditional write (returned to callers that ask for ALL_OLD)
}

func (e *DynError) Error() string { return e.Code + ": " + e.Msg }

func validation(format string, a ...interface{}) *DynError {
	return &DynError{Code: "ValidationException", Msg: fmt.Sprintf(format, a...)}
}

func (f *FakeDynamo) table(name *string) (*DynTable, *DynError) {
	if name == nil {
		return nil, validation("TableName is required")
	}
	t := f.Tables[*name]
	if t == nil {
		return nil, &DynError{Code: "ResourceNotFoundException", Msg: "Requested resource not found: table " + *name}
	}
	return t, nil
}

func keyOf(item map[string]*AV) (string, int64, *DynError) {
	id, c := item["Id"], item["Created"]
	if id == nil || id.S == nil {
		return "", 0, validation("key attribute Id must be of type S")
	}
	if c == nil || c.N == nil {
		return "", 0, validation("key attribute Created must be of type N")
	}
	n, err := strconv.ParseInt(*c.N, 10, 64)
	if err != nil {
		return "", 0, validation("Created is not a number: %q", *c.N)
	}
	return *id.S, n, nil
}

func (t *DynTable) view(consistent bool) []map[string]*AV {
	if consistent {
		return t.Items
	}
	return t.Prev
}

func resolveName(tok string, names map[string]string) (string, *DynError) {
	tok = strings.TrimSpace(tok)
	if strings.HasPrefix(tok, "#") {
		n, ok := names[tok]
		if !ok {
			return "", validation("expression attribute name %s is not defined", tok)
		}
		return n, nil
	}
	return tok, nil
}

func project(item map[string]*AV, proj *string, names map[string]string) (map[string]*AV, *DynError) {
	if proj == nil || strings.TrimSpace(*proj) == "" {
		return item, nil
	}
	out := map[string]*AV{}
	for _, p := range strings.Split(*proj, ",") {
		n, err := resolveName(p, names)
		if err != nil {
			return nil, err
		}
		if v, ok := item[n]; ok {
			out[n] = v
		}
	}
	return out, nil
}

// GetItem implements the read-by-key semantics.
func (f *FakeDynamo) transient(op string) *DynError {
	if f.FailReads <= 0 {
		return nil
	}
	if f.failed == nil {
		f.failed = map[string]int{}
	}
	if f.failed[op] < f.FailReads {
		f.failed[op]++
		return &DynError{Code: "InternalServerError", Msg: "internal server error (injected)"}
	}
	f.failed[op] = 0
	return nil
}

func (f *FakeDynamo) GetItem(table *string, key map[string]*AV, names map[string]string, proj *string, consistent bool) (map[string]*AV, *DynError) {
	f.Log = append(f.Log, "GetItem")
	if e := f.transient("GetItem"); e != nil {
		return nil, e
	}
	t, derr := f.table(table)
	if derr != nil {
		return nil, derr
	}
	if len(key) != 2 {
		return nil, validation("the provided key element does not match the schema")
	}
	id, c, derr := keyOf(key)
	if derr != nil {
		return nil, derr
	}
	for _, it := range t.view(consistent) {
		iid, ic, _ := keyOf(it)
		if iid == id && ic == c {
			return project(it, proj, names)
		}
	}
	return nil, nil
}

var (
	reNotExists = regexp.MustCompile(`^\s*attribute_not_exists\s*\(\s*([#\w]+)\s*\)\s*$`)
	reKeyCond   = regexp.MustCompile(`^\s*([#\w]+)\s*=\s*(:\w+)\s*$`)
	reSortCond  = regexp.MustCompile(`^\s*([#\w]+)\s*(=|<=|>=|<|>)\s*(:\w+)\s*$`)
)

// PutItem implements conditional insert / overwrite.
func (f *FakeDynamo) PutItem(table *string, item map[string]*AV, cond *string, names map[string]string) *DynError {
	f.Log = append(f.Log, "PutItem")
	t, derr := f.table(table)
	if derr != nil {
		return derr
	}
	id, c, derr := keyOf(item)
	if derr != nil {
		return derr
	}
	idx := -1
	for i, it := range t.Items {
		iid, ic, _ := keyOf(it)
		if iid == id && ic == c {
			idx = i
		}
	}
	if cond != nil && strings.TrimSpace(*cond) != "" {
		for _, part := range regexp.MustCompile(`(?i)\s+and\s+`).Split(*cond, -1) {
			m := reNotExists.FindStringSubmatch(part)
			if m == nil {
				f.Unsupported = append(f.Unsupported, "ConditionExpression "+*cond)
				return validation("unsupported ConditionExpression %q", *cond)
			}
			attr, derr := resolveName(m[1], names)
			if derr != nil {
				return derr
			}
			if idx >= 0 {
				if _, has := t.Items[idx][attr]; has {
					return &DynError{Code: "ConditionalCheckFailedException", Msg: "The conditional request failed", Item: t.Items[idx]}
				}
			}
		}
	}
	t.Prev = append([]map[string]*AV(nil), t.Items...)
	if idx >= 0 {
		t.Items = append(append([]map[string]*AV(nil), t.Items[:idx]...), t.Items[idx+1:]...)
	}
	t.Items = append(t.Items, item)
	return nil
}

// Query implements partition-key queries with ordering and limit.
func (f *FakeDynamo) Query(table *string, keyCond *string, names map[string]string, values map[string]*AV, proj *string, limit *int64, forward *bool, consistent bool) ([]map[string]*AV, *DynError) {
	f.Log = append(f.Log, "Query")
	if e := f.transient("Query"); e != nil {
		return nil, e
	}
	t, derr := f.table(table)
	if derr != nil {
		return nil, derr
	}
	if keyCond == nil {
		return nil, validation("KeyConditionExpression is required")
	}
	parts := regexp.MustCompile(`(?i)\s+and\s+`).Split(strings.Trim(*keyCond, "() "), -1)
	var pk *string
	type sc struct {
		op string
		n  int64
	}
	var sorts []sc
	for _, p := range parts {
		p = strings.Trim(p, "() ")
		if m := reKeyCond.FindStringSubmatch(p); m != nil {
			attr, derr := resolveName(m[1], names)
			if derr != nil {
				return nil, derr
			}
			v, ok := values[m[2]]
			if !ok {
				return nil, validation("expression attribute value %s is not defined", m[2])
			}
			if attr == "Id" {
				if v.S == nil {
					return nil, validation("Id must be compared with an S value")
				}
				pk = v.S
				continue
			}
		}
		if m := reSortCond.FindStringSubmatch(p); m != nil {
			attr, derr := resolveName(m[1], names)
			if derr != nil {
				return nil, derr
			}
			v, ok := values[m[3]]
			if !ok || attr != "Created" || v.N == nil {
				f.Unsupported = append(f.Unsupported, "KeyConditionExpression "+*keyCond)
				return nil, validation("unsupported key condition %q", p)
			}
			n, _ := strconv.ParseInt(*v.N, 10, 64)
			sorts = append(sorts, sc{m[2], n})
			continue
		}
		f.Unsupported = append(f.Unsupported, "KeyConditionExpression "+*keyCond)
		return nil, validation("unsupported KeyConditionExpression %q", *keyCond)
	}
	if pk == nil {
		return nil, validation("query condition missed key schema element: Id")
	}
	var out []map[string]*AV
	for _, it := range t.view(consistent) {
		iid, ic, _ := keyOf(it)
		if iid != *pk {
			continue
		}
		ok := true
		for _, s := range sorts {
			switch s.op {
			case "=":
				ok = ok && ic == s.n
			case "<":
				ok = ok && ic < s.n
			case "<=":
				ok = ok && ic <= s.n
			case ">":
				ok = ok && ic > s.n
			case ">=":
				ok = ok && ic >= s.n
			}
		}
		if ok {
			out = append(out, it)
		}
	}
	asc := forward == nil || *forward
	sort.SliceStable(out, func(i, j int) bool {
		_, a, _ := keyOf(out[i])
		_, b, _ := keyOf(out[j])
		if asc {
			return a < b
		}
		return a > b
	})
	if limit != nil && int64(len(out)) > *limit {
		out = out[:*limit]
	}
	var res []map[string]*AV
	for _, it := range out {
		p, derr := project(it, proj, names)
		if derr != nil {
			return nil, derr
		}
		res = append(res, p)
	}
	return res, nil
}

// ---------------------------------------------------------------- SDK v1 adapter

type DynamoV1 struct{ F *FakeDynamo }

func fromV1(a *ddbv1.AttributeValue) *AV {
	if a == nil {
		return nil
	}
	v := &AV{S: a.S, N: a.N, BOOL: a.BOOL, B: a.B}
	if a.NULL != nil && *a.NULL {
		v.NULL = true
	}
	if a.M != nil {
		v.M = map[string]*AV{}
		for k, x := range a.M {
			v.M[k] = fromV1(x)
		}
	}
	for _, x := range a.L {
		v.L = append(v.L, fromV1(x))
	}
	return v
}

func toV1(a *AV) *ddbv1.AttributeValue {
	if a == nil {
		return nil
	}
	v := &ddbv1.AttributeValue{S: a.S, N: a.N, BOOL: a.BOOL, B: a.B}
	if a.NULL {
		v.NULL = awsv1.Bool(true)
	}
	if a.M != nil {
		v.M = map[string]*ddbv1.AttributeValue{}
		for k, x := range a.M {
			v.M[k] = toV1(x)
		}
	}
	for _, x := range a.L {
		v.L = append(v.L, toV1(x))
	}
	return v
}

func mapFromV1(m map[string]*ddbv1.AttributeValue) map[string]*AV {
	if m == nil {
		return nil
	}
	out := map[string]*AV{}
	for k, v := range m {
		out[k] = fromV1(v)
	}
	return out
}

func mapToV1(m map[string]*AV) map[string]*ddbv1.AttributeValue {
	if m == nil {
		return nil
	}
	out := map[string]*ddbv1.AttributeValue{}
	for k, v := range m {
		out[k] = toV1(v)
	}
	return out
}

func namesV1(m map[string]*string) map[string]string {
	out := map[string]string{}
	for k, v := range m {
		if v != nil {
			out[k] = *v
		}
	}
	return out
}

func errV1(e *DynError) error {
	if e == nil {
		return nil
	}
	return awserr.New(e.Code, e.Msg, nil)
}

func (d DynamoV1) GetItemWithContext(_ awsv1.Context, in *ddbv1.GetItemInput, _ ...reqv1.Option) (*ddbv1.GetItemOutput, error) {
	defer d.F.enter("dynamo.Get")()
	item, e := d.F.GetItem(in.TableName, mapFromV1(in.Key), namesV1(in.ExpressionAttributeNames), in.ProjectionExpression, in.ConsistentRead != nil && *in.ConsistentRead)
	if e != nil {
		return nil, errV1(e)
	}
	return &ddbv1.GetItemOutput{Item: mapToV1(item)}, nil
}

func (d DynamoV1) PutItemWithContext(_ awsv1.Context, in *ddbv1.PutItemInput, _ ...reqv1.Option) (*ddbv1.PutItemOutput, error) {
	defer d.F.enter("dynamo.Put")()
	if e := d.F.PutItem(in.TableName, mapFromV1(in.Item), in.ConditionExpression, namesV1(in.ExpressionAttributeNames)); e != nil {
		return nil, errV1(e)
	}
	return &ddbv1.PutItemOutput{}, nil
}

func (d DynamoV1) QueryWithContext(_ awsv1.Context, in *ddbv1.QueryInput, _ ...reqv1.Option) (*ddbv1.QueryOutput, error) {
	defer d.F.enter("dynamo.Query")()
	items, e := d.F.Query(in.TableName, in.KeyConditionExpression, namesV1(in.ExpressionAttributeNames), mapFromV1(in.ExpressionAttributeValues),
		in.ProjectionExpression, in.Limit, in.ScanIndexForward, in.ConsistentRead != nil && *in.ConsistentRead)
	if e != nil {
		return nil, errV1(e)
	}
	out := &ddbv1.QueryOutput{}
	for _, it := range items {
		out.Items = append(out.Items, mapToV1(it))
	}
	return out, nil
}

// ---------------------------------------------------------------- SDK v2 adapter

type DynamoV2 struct{ F *FakeDynamo }

func fromV2(a typesv2.AttributeValue) *AV {
	switch t := a.(type) {
	case *typesv2.AttributeValueMemberS:
		s := t.Value
		return &AV{S: &s}
	case *typesv2.AttributeValueMemberN:
		n := t.Value
		return &AV{N: &n}
	case *typesv2.AttributeValueMemberBOOL:
		b := t.Value
		return &AV{BOOL: &b}
	case *typesv2.AttributeValueMemberB:
		return &AV{B: t.Value}
	case *typesv2.AttributeValueMemberNULL:
		return &AV{NULL: true}
	case *typesv2.AttributeValueMemberM:
		v := &AV{M: map[string]*AV{}}
		for k, x := range t.Value {
			v.M[k] = fromV2(x)
		}
		return v
	case *typesv2.AttributeValueMemberL:
		v := &AV{}
		for _, x := range t.Value {
			v.L = append(v.L, fromV2(x))
		}
		return v
	}
	return nil
}

func toV2(a *AV) typesv2.AttributeValue {
	switch {
	case a == nil:
		return nil
	case a.S != nil:
		return &typesv2.AttributeValueMemberS{Value: *a.S}
	case a.N != nil:
		return &typesv2.AttributeValueMemberN{Value: *a.N}
	case a.BOOL != nil:
		return &typesv2.AttributeValueMemberBOOL{Value: *a.BOOL}
	case a.M != nil:
		m := map[string]typesv2.AttributeValue{}
		for k, x := range a.M {
			m[k] = toV2(x)
		}
		return &typesv2.AttributeValueMemberM{Value: m}
	case a.B != nil:
		return &typesv2.AttributeValueMemberB{Value: a.B}
	case a.NULL:
		return &typesv2.AttributeValueMemberNULL{Value: true}
	}
	var l []typesv2.AttributeValue
	for _, x := range a.L {
		l = append(l, toV2(x))
	}
	return &typesv2.AttributeValueMemberL{Value: l}
}

func mapFromV2(m map[string]typesv2.AttributeValue) map[string]*AV {
	if m == nil {
		return nil
	}
	out := map[string]*AV{}
	for k, v := range m {
		out[k] = fromV2(v)
	}
	return out
}

func mapToV2(m map[string]*AV) map[string]typesv2.AttributeValue {
	if m == nil {
		return nil
	}
	out := map[string]typesv2.AttributeValue{}
	for k, v := range m {
		out[k] = toV2(v)
	}
	return out
}

func errV2(e *DynError) error {
	if e == nil {
		return nil
	}
	if e.Code == "ConditionalCheckFailedException" {
		return &typesv2.ConditionalCheckFailedException{Message: &e.Msg}
	}
	if e.Code == "ResourceNotFoundException" {
		return &typesv2.ResourceNotFoundException{Message: &e.Msg}
	}
	if e.Code == "InternalServerError" {
		return &typesv2.InternalServerError{Message: &e.Msg}
	}
	return errors.New(e.Error())
}

func (d DynamoV2) GetItem(_ context.Context, in *ddbv2.GetItemInput, _ ...func(*ddbv2.Options)) (*ddbv2.GetItemOutput, error) {
	defer d.F.enter("dynamo.Get")()
	item, e := d.F.GetItem(in.TableName, mapFromV2(in.Key), in.ExpressionAttributeNames, in.ProjectionExpression, in.ConsistentRead != nil && *in.ConsistentRead)
	if e != nil {
		return nil, errV2(e)
	}
	return &ddbv2.GetItemOutput{Item: mapToV2(item)}, nil
}

func (d DynamoV2) PutItem(_ context.Context, in *ddbv2.PutItemInput, _ ...func(*ddbv2.Options)) (*ddbv2.PutItemOutput, error) {
	defer d.F.enter("dynamo.Put")()
	if e := d.F.PutItem(in.TableName, mapFromV2(in.Item), in.ConditionExpression, in.ExpressionAttributeNames); e != nil {
		err := errV2(e)
		if cc, ok := err.(*typesv2.ConditionalCheckFailedException); ok && e.Item != nil && in.ReturnValuesOnConditionCheckFailure == typesv2.ReturnValuesOnConditionCheckFailureAllOld {
			cc.Item = mapToV2(e.Item) // as the service does when the request asks for the old item
		}
		return nil, err
	}
	return &ddbv2.PutItemOutput{}, nil
}

func (d DynamoV2) Query(_ context.Context, in *ddbv2.QueryInput, _ ...func(*ddbv2.Options)) (*ddbv2.QueryOutput, error) {
	defer d.F.enter("dynamo.Query")()
	var limit *int64
	if in.Limit != nil {
		l := int64(*in.Limit)
		limit = &l
	}
	items, e := d.F.Query(in.TableName, in.KeyConditionExpression, in.ExpressionAttributeNames, mapFromV2(in.ExpressionAttributeValues),
		in.ProjectionExpression, limit, in.ScanIndexForward, in.ConsistentRead != nil && *in.ConsistentRead)
	if e != nil {
		return nil, errV2(e)
	}
	out := &ddbv2.QueryOutput{}
	for _, it := range items {
		out.Items = append(out.Items, mapToV2(it))
	}
	return out, nil
}

func (d DynamoV2) Options() ddbv2.Options { return ddbv2.Options{Region: d.F.Region} }
