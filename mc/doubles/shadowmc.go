package doubles

import (
	"errors"
	"fmt"
	"unsafe"

	"github.com/awnumar/memcall"

	"asherahverif/shim/vsched"
)

// Protection states of the shadow page table.
const (
	ProtNone = iota
	ProtRO
	ProtRW
)

// ShadowPage is the shadow state of one allocation.
type ShadowPage struct {
	obj     vsched.Obj // scheduling identity: every primitive on the page is a scheduling point
	ID      int
	Buf     []byte
	Mapped  bool
	Locked  bool
	Prot    int
	Foreign bool // page not allocated through the shadow (memguard's own pages)
}

// McCall is one logged primitive call.
type McCall struct {
	Seq   int
	Op    string
	Page  int
	Fault bool
	Note  string
}

// ShadowMemcall implements the five memory primitives over Go-heap buffers with a shadow
// page table; every call is an environment choice {ok, fail} while Armed.
type ShadowMemcall struct {
	Pages  map[unsafe.Pointer]*ShadowPage
	List   []*ShadowPage
	Calls  []McCall
	Armed  bool
	Events []string // oracle-relevant observations (non-zero content at unlock, protect on unmapped, ...)
	// Secret, if set, is the byte pattern whose presence in a page at unlock time is reported.
	Secret []byte
	// Real, if set, forwards Protect to the real mprotect as well (memguard-backed pages).
	RealProtect bool
}

func NewShadowMemcall() *ShadowMemcall {
	return &ShadowMemcall{Pages: map[unsafe.Pointer]*ShadowPage{}}
}

var ErrMemcall = errors.New("shadow memcall: injected failure")

func (m *ShadowMemcall) fault(op string) bool {
	if !m.Armed {
		return false
	}
	return vsched.Choose(2, "mc."+op) != 0
}

func (m *ShadowMemcall) page(b []byte, op string) *ShadowPage {
	if len(b) == 0 {
		return nil
	}
	p := m.Pages[unsafe.Pointer(&b[0])]
	if p == nil {
		// memory the shadow did not allocate (memguard's buffer): adopt it
		p = &ShadowPage{ID: len(m.List), Buf: b, Mapped: true, Locked: true, Prot: ProtRW, Foreign: true}
		m.Pages[unsafe.Pointer(&b[0])] = p
		m.List = append(m.List, p)
	}
	return p
}

func (m *ShadowMemcall) log(op string, p *ShadowPage, fault bool, note string) {
	id := -1
	if p != nil {
		id = p.ID
	}
	m.Calls = append(m.Calls, McCall{Seq: len(m.Calls), Op: op, Page: id, Fault: fault, Note: note})
}

func (m *ShadowMemcall) Alloc(size int) ([]byte, error) {
	defer vsched.LockDoubles()()
	if m.fault("Alloc") {
		m.log("Alloc", nil, true, "")
		return nil, ErrMemcall
	}
	b := make([]byte, size)
	p := &ShadowPage{ID: len(m.List), Buf: b, Mapped: true, Prot: ProtRW}
	m.Pages[unsafe.Pointer(&b[0])] = p
	m.List = append(m.List, p)
	m.log("Alloc", p, false, "")
	return b, nil
}

func (m *ShadowMemcall) Lock(b []byte) error {
	defer vsched.LockDoubles()()
	p := m.page(b, "Lock")
	vsched.Point(&vsched.Op{Kind: "mc.Lock", Obj: &p.obj})
	if m.fault("Lock") {
		m.log("Lock", p, true, "")
		return ErrMemcall
	}
	p.Locked = true
	m.log("Lock", p, false, "")
	return nil
}

func nonZero(b []byte) bool {
	for _, x := range b {
		if x != 0 {
			return true
		}
	}
	return false
}

func (m *ShadowMemcall) Unlock(b []byte) error {
	defer vsched.LockDoubles()()
	p := m.page(b, "Unlock")
	vsched.Point(&vsched.Op{Kind: "mc.Unlock", Obj: &p.obj})
	if m.fault("Unlock") {
		m.log("Unlock", p, true, "")
		return ErrMemcall
	}
	note := ""
	if !p.Foreign && nonZero(p.Buf) {
		note = "nonzero"
		if m.Secret != nil && containsWindow(p.Buf, m.Secret) {
			note = "secret"
			m.Events = append(m.Events, fmt.Sprintf("page %d unlocked while it still holds the secret bytes", p.ID))
		}
	}
	p.Locked = false
	m.log("Unlock", p, false, note)
	return nil
}

func containsWindow(hay, secret []byte) bool {
	n := len(secret)
	if n > 8 {
		n = 8
	}
	if n == 0 || len(hay) < n {
		return false
	}
	for i := 0; i+n <= len(hay); i++ {
		match := true
		for j := 0; j < n; j++ {
			if hay[i+j] != secret[j] {
				match = false
				break
			}
		}
		if match {
			return true
		}
	}
	return false
}

func (m *ShadowMemcall) Free(b []byte) error {
	defer vsched.LockDoubles()()
	p := m.page(b, "Free")
	vsched.Point(&vsched.Op{Kind: "mc.Free", Obj: &p.obj})
	if m.fault("Free") {
		m.log("Free", p, true, "")
		return ErrMemcall
	}
	if !p.Mapped {
		m.Events = append(m.Events, fmt.Sprintf("page %d freed twice", p.ID))
	}
	// the real memcall.Free makes the region writable and wipes it before munmap
	if !p.Foreign {
		for i := range p.Buf {
			p.Buf[i] = 0
		}
	}
	p.Mapped = false
	p.Locked = false
	m.log("Free", p, false, "")
	return nil
}

func (m *ShadowMemcall) Protect(b []byte, f memcall.MemoryProtectionFlag) error {
	defer vsched.LockDoubles()()
	p := m.page(b, "Protect")
	want := ProtNone
	switch f {
	case memcall.ReadOnly():
		want = ProtRO
	case memcall.ReadWrite():
		want = ProtRW
	}
	name := []string{"NoAccess", "ReadOnly", "ReadWrite"}[want]
	// the protection change is visible to every thread touching the page: it must be a scheduling point
	vsched.Point(&vsched.Op{Kind: "mc.Protect(" + name + ")", Obj: &p.obj})
	if m.fault("Protect(" + name + ")") {
		m.log("Protect("+name+")", p, true, "")
		return ErrMemcall
	}
	if !p.Mapped {
		m.Events = append(m.Events, fmt.Sprintf("mprotect on unmapped page %d", p.ID))
		m.log("Protect("+name+")", p, false, "unmapped")
		return errors.New("shadow memcall: ENOMEM (page not mapped)")
	}
	if m.RealProtect {
		if err := memcall.Protect(b, f); err != nil {
			return err
		}
	}
	p.Prot = want
	m.log("Protect("+name+")", p, false, "")
	return nil
}

// PageOf finds the page whose buffer contains the first byte of b.
func (m *ShadowMemcall) PageOf(b []byte) *ShadowPage {
	if len(b) == 0 {
		return nil
	}
	ptr := uintptr(unsafe.Pointer(&b[0]))
	for _, p := range m.List {
		if len(p.Buf) == 0 {
			continue
		}
		lo := uintptr(unsafe.Pointer(&p.Buf[0]))
		if ptr >= lo && ptr < lo+uintptr(len(p.Buf)) {
			return p
		}
	}
	return nil
}

// ProtOf returns the shadow protection of the page holding b (-1 unknown, -2 unmapped).
func (m *ShadowMemcall) ProtOf(b []byte) int {
	defer vsched.LockDoubles()()
	p := m.PageOf(b)
	if p == nil {
		return -1
	}
	if !p.Mapped {
		return -2
	}
	return p.Prot
}
