package doubles

import (
	"context"
	"crypto/aes"
	"crypto/cipher"
	"errors"
	"fmt"
	"sort"

	ae "github.com/godaddy/asherah/go/appencryption"
	"github.com/godaddy/asherah/go/appencryption/pkg/crypto/aead"

	"asherahverif/shim/vclock"
	"asherahverif/shim/vrand"
	"asherahverif/shim/vsched"
)

// ---------------------------------------------------------------- metastore

// Row is one stored key record with ghost fields for the oracles.
type Row struct {
	ID        string
	Created   int64
	Rec       *ae.EnvelopeKeyRecord // authoritative copy
	StoredAt  int64                 // virtual time of the insert
	RevokedAt int64                 // virtual time of the out-of-band revocation (0 = never)
	StoredBy  string
	hash      string
}

// Call is one logged external call.
type Call struct {
	Seq     int
	Who     string // which factory/process (set by the harness through SetWho)
	Thread  int
	Op      string
	ID      string
	Created int64
	Result  string
	At      int64
}

// Fault kinds for Store.
const (
	FaultNone            = iota
	FaultError           // request lost: error, nothing written
	FaultFalseDuplicate  // (false, nil) without writing
	FaultErrorAfterWrite // reply lost: written, but an error is returned
)

// SpyMetastore is the authoritative, insert-if-absent table.
type SpyMetastore struct {
	Rows   map[string]map[int64]*Row
	Calls  []Call
	Suffix string
	// FaultMode: 0 = never fault; 1 = every call is a Choose point among its fault kinds.
	FaultMode int
	// Script, if non-nil, decides faults by call index (used by deviation enumeration without Choose).
	Script  func(callIndex int, op string) int
	Who     string
	Mutated []string
	NoYield bool
	// Mute: calls are served without logging, yielding or faults (used by oracles that read the store).
	Mute bool
	// Cancel, when set together with FaultMode, adds "the caller's context is cancelled during this call" to the
	// alternatives of every call (the call itself is then answered normally).
	Cancel    func()
	Cancelled int
	// Slow, when set together with FaultMode, adds "this call takes long: the clock moves on while it is in flight".
	Slow func()
	objs map[string]*vsched.Obj // one scheduling identity per key id: calls on different ids commute
}

func NewSpyMetastore() *SpyMetastore {
	return &SpyMetastore{Rows: map[string]map[int64]*Row{}}
}

// GetRegionSuffix makes the SDK use suffixed partitions when Suffix != "".
func (m *SpyMetastore) GetRegionSuffix() string { return m.Suffix }

var ErrInjected = errors.New("doubles: injected metastore failure")

func copyRec(r *ae.EnvelopeKeyRecord) *ae.EnvelopeKeyRecord {
	if r == nil {
		return nil
	}
	c := *r
	c.EncryptedKey = append([]byte(nil), r.EncryptedKey...)
	if r.ParentKeyMeta != nil {
		pm := *r.ParentKeyMeta
		c.ParentKeyMeta = &pm
	}
	return &c
}

func recHash(r *ae.EnvelopeKeyRecord) string {
	pm := "nil"
	if r.ParentKeyMeta != nil {
		pm = fmt.Sprintf("%s/%d", r.ParentKeyMeta.ID, r.ParentKeyMeta.Created)
	}
	return fmt.Sprintf("%v|%d|%x|%s", r.Revoked, r.Created, r.EncryptedKey, pm)
}

func (m *SpyMetastore) log(op, id string, created int64, res string) {
	if m.Mute {
		return
	}
	m.Calls = append(m.Calls, Call{Seq: len(m.Calls), Who: m.Who, Thread: vsched.CurThread(), Op: op, ID: id, Created: created, Result: res, At: vclock.Unix()})
}

func (m *SpyMetastore) fault(op string, kinds int) int {
	if m.Mute {
		return FaultNone
	}
	idx := len(m.Calls)
	if m.Script != nil {
		return m.Script(idx, op)
	}
	if m.FaultMode == 0 {
		return FaultNone
	}
	// further alternatives that let the call itself succeed: the caller's context is cancelled while the call is in
	// flight (the store ignores the context), the call is slow and the wall clock moves on meanwhile
	var extras []func()
	if m.Cancel != nil {
		extras = append(extras, func() { m.Cancel(); m.Cancelled++ })
	}
	if m.Slow != nil {
		extras = append(extras, m.Slow)
	}
	c := vsched.Choose(kinds+len(extras), "ms."+op)
	if c >= kinds {
		extras[c-kinds]()
		return FaultNone
	}
	return c
}

func (m *SpyMetastore) yield(op, id string) {
	if !m.NoYield && !m.Mute {
		if m.objs == nil {
			m.objs = map[string]*vsched.Obj{}
		}
		o := m.objs[id]
		if o == nil {
			o = &vsched.Obj{}
			m.objs[id] = o
		}
		vsched.Point(&vsched.Op{Kind: "ms." + op, Obj: o, Ext: true})
	}
}

func (m *SpyMetastore) Load(cctx context.Context, id string, created int64) (*ae.EnvelopeKeyRecord, error) {
	defer vsched.LockDoubles()()
	if err := cctx.Err(); err != nil && !m.Mute {
		m.log("ctx", id, 0, "error(context)")
		return nil, err
	}
	m.yield("Load", id)
	if m.fault("Load", 2) != FaultNone {
		m.log("Load", id, created, "error")
		return nil, ErrInjected
	}
	if r, ok := m.Rows[id][created]; ok {
		m.log("Load", id, created, "found")
		out := copyRec(r.Rec)
		out.ID = id
		return out, nil
	}
	m.log("Load", id, created, "nil")
	return nil, nil
}

// Latest returns the newest row for id (nil if none).
func (m *SpyMetastore) Latest(id string) *Row {
	var best *Row
	for _, r := range m.Rows[id] {
		if best == nil || r.Created > best.Created {
			best = r
		}
	}
	return best
}

func (m *SpyMetastore) LoadLatest(cctx context.Context, id string) (*ae.EnvelopeKeyRecord, error) {
	defer vsched.LockDoubles()()
	if err := cctx.Err(); err != nil && !m.Mute {
		m.log("ctx", id, 0, "error(context)")
		return nil, err
	}
	m.yield("LoadLatest", id)
	if m.fault("LoadLatest", 2) != FaultNone {
		m.log("LoadLatest", id, 0, "error")
		return nil, ErrInjected
	}
	if r := m.Latest(id); r != nil {
		m.log("LoadLatest", id, r.Created, "found")
		out := copyRec(r.Rec)
		out.ID = id
		return out, nil
	}
	m.log("LoadLatest", id, 0, "nil")
	return nil, nil
}

func (m *SpyMetastore) Store(cctx context.Context, id string, created int64, rec *ae.EnvelopeKeyRecord) (bool, error) {
	defer vsched.LockDoubles()()
	if err := cctx.Err(); err != nil && !m.Mute {
		m.log("ctx", id, created, "error(context)")
		return false, err
	}
	m.yield("Store", id)
	f := m.fault("Store", 4)
	switch f {
	case FaultError:
		m.log("Store", id, created, "error(lost)")
		return false, ErrInjected
	case FaultFalseDuplicate:
		m.log("Store", id, created, "false(no write)")
		return false, nil
	}
	if _, ok := m.Rows[id][created]; ok {
		m.log("Store", id, created, "duplicate")
		return false, nil
	}
	if m.Rows[id] == nil {
		m.Rows[id] = map[int64]*Row{}
	}
	c := copyRec(rec)
	c.ID = ""
	m.Rows[id][created] = &Row{ID: id, Created: created, Rec: c, StoredAt: vclock.Unix(), StoredBy: m.Who, hash: recHash(c)}
	if f == FaultErrorAfterWrite {
		m.log("Store", id, created, "stored,error(reply lost)")
		return false, ErrInjected
	}
	m.log("Store", id, created, "stored")
	return true, nil
}

// Revoke flips the revoked flag out of band (what an operator does).
func (m *SpyMetastore) Revoke(id string, created int64) bool {
	defer vsched.LockDoubles()()
	r, ok := m.Rows[id][created]
	if !ok || r.Rec.Revoked {
		return false
	}
	r.Rec.Revoked = true
	r.RevokedAt = vclock.Unix()
	r.hash = recHash(r.Rec)
	return true
}

// CheckImmutable verifies that no stored row changed except through Revoke.
func (m *SpyMetastore) CheckImmutable() []string {
	var bad []string
	for id, byC := range m.Rows {
		for c, r := range byC {
			if recHash(r.Rec) != r.hash {
				bad = append(bad, fmt.Sprintf("%s/%d", id, c))
			}
		}
	}
	sort.Strings(bad)
	return bad
}

// SortedRows returns all rows ordered by (id, created).
func (m *SpyMetastore) SortedRows() []*Row {
	var out []*Row
	for _, byC := range m.Rows {
		for _, r := range byC {
			out = append(out, r)
		}
	}
	sort.Slice(out, func(i, j int) bool {
		if out[i].ID != out[j].ID {
			return out[i].ID < out[j].ID
		}
		return out[i].Created < out[j].Created
	})
	return out
}

// Snapshot deep-copies the table (what a fresh process would see).
func (m *SpyMetastore) Snapshot() map[string]map[int64]*ae.EnvelopeKeyRecord {
	out := map[string]map[int64]*ae.EnvelopeKeyRecord{}
	for id, byC := range m.Rows {
		out[id] = map[int64]*ae.EnvelopeKeyRecord{}
		for c, r := range byC {
			out[id][c] = copyRec(r.Rec)
		}
	}
	return out
}

// ---------------------------------------------------------------- KMS

// SpyKMS wraps system keys with AES-256-GCM under a fixed master key (inline, so that
// no real locked memory and none of its locks are involved).
type SpyKMS struct {
	master    [32]byte
	Calls     []Call
	Who       string
	FaultMode int
	Script    func(callIndex int, op string) int
	// Returned keeps every plaintext slice handed back by DecryptKey (C10).
	Returned [][]byte
	// EncryptInputs keeps copies of what was passed to EncryptKey (the only place SK plaintext may go).
	EncryptInputs [][]byte
	// EncryptInputRefs keeps the very slices passed to EncryptKey (not copies): after the operation they must be
	// zero or be the memory of a secret (C10: no readable transient copy of a key outlives the call).
	EncryptInputRefs [][]byte
	// Cancel, Slow: see SpyMetastore.
	Cancel    func()
	Cancelled int
	Slow      func()
	Metastore *SpyMetastore // for a common call index with the metastore script, optional
	NoYield   bool
	Mute      bool
}

func NewSpyKMS() *SpyKMS {
	k := &SpyKMS{}
	copy(k.master[:], "asherahverif-master-key-32bytes!")
	return k
}

var ErrKMS = errors.New("doubles: injected KMS failure")

func (k *SpyKMS) gcm() cipher.AEAD {
	b, _ := aes.NewCipher(k.master[:])
	g, _ := cipher.NewGCM(b)
	return g
}

func (k *SpyKMS) log(op, res string) {
	if k.Mute {
		return
	}
	k.Calls = append(k.Calls, Call{Seq: len(k.Calls), Who: k.Who, Thread: vsched.CurThread(), Op: op, Result: res, At: vclock.Unix()})
}

func (k *SpyKMS) logID(op, res, id string) {
	if k.Mute {
		return
	}
	k.Calls = append(k.Calls, Call{Seq: len(k.Calls), Who: k.Who, Thread: vsched.CurThread(), Op: op, ID: id, Result: res, At: vclock.Unix()})
}

func (k *SpyKMS) fault(op string) bool {
	if k.Mute {
		return false
	}
	if k.Script != nil {
		return k.Script(len(k.Calls), op) != 0
	}
	if k.FaultMode == 0 {
		return false
	}
	var extras []func()
	if k.Cancel != nil {
		extras = append(extras, func() { k.Cancel(); k.Cancelled++ })
	}
	if k.Slow != nil {
		extras = append(extras, k.Slow)
	}
	c := vsched.Choose(2+len(extras), "kms."+op)
	if c >= 2 {
		extras[c-2]()
		return false
	}
	return c != 0
}

func (k *SpyKMS) EncryptKey(_ context.Context, key []byte) ([]byte, error) {
	defer vsched.LockDoubles()()
	if !k.NoYield && !k.Mute {
		vsched.Yield("kms.EncryptKey")
	}
	k.EncryptInputs = append(k.EncryptInputs, append([]byte(nil), key...))
	if !k.Mute {
		k.EncryptInputRefs = append(k.EncryptInputRefs, key)
	}
	if k.fault("EncryptKey") {
		k.log("EncryptKey", "error")
		return nil, ErrKMS
	}
	g := k.gcm()
	nonce := make([]byte, 12)
	vrand.Read(nonce)
	out := g.Seal(nil, nonce, key, nil)
	out = append(out, nonce...)
	k.log("EncryptKey", "ok")
	return out, nil
}

func (k *SpyKMS) DecryptKey(_ context.Context, enc []byte) ([]byte, error) {
	defer vsched.LockDoubles()()
	if !k.NoYield && !k.Mute {
		vsched.Yield("kms.DecryptKey")
	}
	if k.fault("DecryptKey") {
		k.log("DecryptKey", "error")
		return nil, ErrKMS
	}
	pt, err := k.Unwrap(enc)
	if err != nil {
		k.log("DecryptKey", "autherror")
		return nil, err
	}
	if !k.Mute {
		k.Returned = append(k.Returned, pt)
	}
	k.logID("DecryptKey", "ok", fmt.Sprintf("%x", enc[:8]))
	return pt, nil
}

// Unwrap is the KMS as seen by the reference decryptor (no logging, no faults).
func (k *SpyKMS) Unwrap(enc []byte) ([]byte, error) {
	if len(enc) < 12+16 {
		return nil, errors.New("kms: ciphertext too short")
	}
	g := k.gcm()
	n := len(enc) - 12
	return g.Open(nil, enc[n:], enc[:n], nil)
}

// ---------------------------------------------------------------- AEAD

// AEADCall is one logged AEAD operation.
type AEADCall struct {
	Seq       int
	Op        string // Encrypt | Decrypt
	KeyID     int    // identity of the key material (TrackFactory key id, 0 = unknown)
	Nonce     string
	DataKeyID int // if the plaintext (Encrypt) / result (Decrypt) is itself known key material
	DataLen   int
	Err       bool
	Thread    int
	KeyHash   string // fingerprint of the key bytes (keys that never lived in a tracked secret have KeyID 0)
	KeyZero   bool   // the key consists of zero bytes only
	Data      []byte // copy of the plaintext passed to Encrypt (small inputs only)
}

// SpyAEAD wraps the repository's real AES-256-GCM.
type SpyAEAD struct {
	Real  ae.AEAD
	F     *TrackFactory
	Calls []AEADCall
	// Returned keeps the plaintext slices produced by Decrypt (key-unwrap results must be wiped, C10).
	Returned [][]byte
	// KeyArgs keeps the very slices passed as key (and as data, when the data is key material) to Encrypt / Decrypt:
	// after the operation each must be zero or be the memory of a secret (C10).
	KeyArgs  [][]byte
	Script   func(callIndex int, op string) bool
	Payloads map[string]bool // registered payloads (to classify plaintexts)
	// FaultMode 1: every call is a Choose point {ok, fail}
	FaultMode int
}

func (a *SpyAEAD) faulty(seq int, op string) bool {
	if a.Script != nil {
		return a.Script(seq, op)
	}
	if a.FaultMode == 0 {
		return false
	}
	return vsched.Choose(2, "aead."+op) != 0
}

func NewSpyAEAD(f *TrackFactory) *SpyAEAD {
	return &SpyAEAD{Real: aead.NewAES256GCM(), F: f, Payloads: map[string]bool{}}
}

var ErrAEAD = errors.New("doubles: injected AEAD failure")

func (a *SpyAEAD) Encrypt(data, key []byte) ([]byte, error) {
	defer vsched.LockDoubles()()
	c := AEADCall{Seq: len(a.Calls), Op: "Encrypt", DataLen: len(data), Thread: vsched.CurThread(), KeyHash: fmt.Sprintf("%x", keyFingerprint(key)), KeyZero: isZero(key)}
	if len(data) <= 64 {
		c.Data = append([]byte(nil), data...)
	}
	if a.F != nil {
		c.KeyID = a.F.KeyIDOf(key)
		c.DataKeyID = a.F.KeyIDOf(data)
	}
	a.KeyArgs = append(a.KeyArgs, key)
	if c.DataKeyID != 0 {
		a.KeyArgs = append(a.KeyArgs, data)
	}
	if a.faulty(c.Seq, "Encrypt") {
		c.Err = true
		a.Calls = append(a.Calls, c)
		return nil, ErrAEAD
	}
	out, err := a.Real.Encrypt(data, key)
	if err != nil {
		c.Err = true
	} else if len(out) >= 12 {
		c.Nonce = string(out[len(out)-12:])
	}
	a.Calls = append(a.Calls, c)
	return out, err
}

func (a *SpyAEAD) Decrypt(data, key []byte) ([]byte, error) {
	defer vsched.LockDoubles()()
	c := AEADCall{Seq: len(a.Calls), Op: "Decrypt", DataLen: len(data), Thread: vsched.CurThread()}
	if a.F != nil {
		c.KeyID = a.F.KeyIDOf(key)
	}
	a.KeyArgs = append(a.KeyArgs, key)
	if a.faulty(c.Seq, "Decrypt") {
		c.Err = true
		a.Calls = append(a.Calls, c)
		return nil, ErrAEAD
	}
	out, err := a.Real.Decrypt(data, key)
	if err != nil {
		c.Err = true
	} else {
		a.Returned = append(a.Returned, out)
	}
	a.Calls = append(a.Calls, c)
	return out, err
}

func keyFingerprint(k []byte) [8]byte {
	var out [8]byte
	var h uint64 = 1469598103934665603
	for _, b := range k {
		h ^= uint64(b)
		h *= 1099511628211
	}
	for i := range out {
		out[i] = byte(h >> (8 * i))
	}
	return out
}

func isZero(b []byte) bool {
	if len(b) == 0 {
		return false
	}
	for _, x := range b {
		if x != 0 {
			return false
		}
	}
	return true
}
