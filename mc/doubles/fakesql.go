package doubles

import (
	"database/sql"
	"database/sql/driver"
	"errors"
	"fmt"
	"io"
	"regexp"
	"sort"
	"strconv"
	"strings"
	"sync"
	"time"
)

// FakeSQL is a tiny semantic SQL engine behind database/sql: it parses the statements it
// receives (SELECT cols FROM t WHERE a = ? [AND b = ?] [ORDER BY c ASC|DESC] [LIMIT n] and
// INSERT INTO t (cols) VALUES (...)) and executes them against tables that enforce the
// documented schema, so a changed ORDER BY direction or placeholder index changes results
// rather than failing a string comparison.
type FakeSQL struct {
	mu      sync.Mutex
	Dialect string // mysql (?), postgres ($n), oracle (:n)
	Tables  map[string]*SQLTable
	Log     []string
	// Unsupported collects statements outside the fake's grammar: the harness reports them as a gap of the
	// machinery (exit 2), never as a violation of the property.
	Unsupported []string
	// FailFetch: every second query is accepted but fails while its first row is fetched (a connection error in the
	// middle of a result set): Rows.Next returns false and Rows.Err reports the error.
	FailFetch bool
	queries   int
}

type SQLTable struct {
	Cols []string
	PK   []string
	Rows []map[string]driver.Value
}

// NewFakeSQL creates the engine with the documented encryption_key table.
func NewFakeSQL(dialect string) *FakeSQL {
	return &FakeSQL{Dialect: dialect, Tables: map[string]*SQLTable{
		"encryption_key": {Cols: []string{"id", "created", "key_record"}, PK: []string{"id", "created"}},
	}}
}

var (
	sqlDrivers   = map[string]*FakeSQL{}
	sqlDriversMu sync.Mutex
	sqlRegOnce   sync.Once
	sqlSeq       int
)

type fakeSQLDriver struct{}

func (fakeSQLDriver) Open(name string) (driver.Conn, error) {
	sqlDriversMu.Lock()
	defer sqlDriversMu.Unlock()
	e := sqlDrivers[name]
	if e == nil {
		return nil, errors.New("fakesql: unknown database " + name)
	}
	return &fakeConn{e}, nil
}

// Open returns a *sql.DB connected to the engine.
func (e *FakeSQL) Open() *sql.DB {
	sqlRegOnce.Do(func() { sql.Register("asherahverif-fakesql", fakeSQLDriver{}) })
	sqlDriversMu.Lock()
	sqlSeq++
	name := fmt.Sprintf("db%d", sqlSeq)
	sqlDrivers[name] = e
	sqlDriversMu.Unlock()
	db, err := sql.Open("asherahverif-fakesql", name)
	if err != nil {
		panic(err)
	}
	return db
}

type fakeConn struct{ e *FakeSQL }

func (c *fakeConn) Prepare(q string) (driver.Stmt, error) { return &fakeStmt{c.e, q}, nil }
func (c *fakeConn) Close() error                          { return nil }
func (c *fakeConn) Begin() (driver.Tx, error)             { return nil, errors.New("fakesql: no transactions") }

type fakeStmt struct {
	e *FakeSQL
	q string
}

func (s *fakeStmt) Close() error  { return nil }
func (s *fakeStmt) NumInput() int { return -1 }

var (
	reSelect = regexp.MustCompile(`(?is)^\s*select\s+(.+?)\s+from\s+(\w+)\s+where\s+(.+?)(?:\s+order\s+by\s+(\w+)(?:\s+(asc|desc))?)?(?:\s+limit\s+(\d+))?\s*;?\s*$`)
	reInsert = regexp.MustCompile(`(?is)^\s*insert\s+into\s+(\w+)\s*\(([^)]*)\)\s*values\s*\(([^)]*)\)\s*;?\s*$`)
	reCond   = regexp.MustCompile(`(?is)^\s*(\w+)\s*=\s*(\?|\$\d+|:\d+)\s*$`)
)

// placeholder resolves one placeholder token to an argument, enforcing the dialect.
func (e *FakeSQL) placeholder(tok string, pos *int, args []driver.Value) (driver.Value, error) {
	switch {
	case tok == "?":
		if e.Dialect != "mysql" {
			return nil, fmt.Errorf("fakesql(%s): syntax error near '?'", e.Dialect)
		}
		i := *pos
		*pos++
		if i >= len(args) {
			return nil, errors.New("fakesql: not enough arguments")
		}
		return args[i], nil
	case strings.HasPrefix(tok, "$"), strings.HasPrefix(tok, ":"):
		want := "postgres"
		if tok[0] == ':' {
			want = "oracle"
		}
		if e.Dialect != want {
			return nil, fmt.Errorf("fakesql(%s): syntax error near '%s'", e.Dialect, tok)
		}
		n, _ := strconv.Atoi(tok[1:])
		if n < 1 || n > len(args) {
			return nil, fmt.Errorf("fakesql: placeholder %s out of range", tok)
		}
		return args[n-1], nil
	}
	return nil, fmt.Errorf("fakesql: bad placeholder %q", tok)
}

// norm normalises a value for a column (timestamps have second precision).
func norm(col string, v driver.Value) (driver.Value, error) {
	switch col {
	case "created":
		switch t := v.(type) {
		case time.Time:
			return t.Truncate(time.Second).UTC().Unix(), nil
		default:
			return nil, fmt.Errorf("fakesql: column created is a TIMESTAMP, got %T", v)
		}
	case "id", "key_record":
		switch t := v.(type) {
		case string:
			return t, nil
		case []byte:
			return string(t), nil
		default:
			return nil, fmt.Errorf("fakesql: column %s is text, got %T", col, v)
		}
	}
	return v, nil
}

func (s *fakeStmt) Exec(args []driver.Value) (driver.Result, error) {
	e := s.e
	e.mu.Lock()
	defer e.mu.Unlock()
	e.Log = append(e.Log, s.q)
	m := reInsert.FindStringSubmatch(s.q)
	if m == nil {
		e.Unsupported = append(e.Unsupported, s.q)
		return nil, fmt.Errorf("fakesql: cannot parse statement %q", s.q)
	}
	t := e.Tables[strings.ToLower(m[1])]
	if t == nil {
		return nil, fmt.Errorf("fakesql: table %s does not exist", m[1])
	}
	cols := splitTrim(m[2])
	vals := splitTrim(m[3])
	if len(cols) != len(vals) {
		return nil, errors.New("fakesql: column count does not match value count")
	}
	row := map[string]driver.Value{}
	pos := 0
	for i, c := range cols {
		c = strings.ToLower(c)
		if !containsStr(t.Cols, c) {
			return nil, fmt.Errorf("fakesql: unknown column %s", c)
		}
		v, err := e.placeholder(vals[i], &pos, args)
		if err != nil {
			return nil, err
		}
		if row[c], err = norm(c, v); err != nil {
			return nil, err
		}
	}
	for _, pk := range t.PK {
		if _, ok := row[pk]; !ok {
			return nil, fmt.Errorf("fakesql: column %s cannot be null", pk)
		}
	}
	for _, r := range t.Rows {
		same := true
		for _, pk := range t.PK {
			if r[pk] != row[pk] {
				same = false
			}
		}
		if same {
			return nil, fmt.Errorf("fakesql: Error 1062: Duplicate entry '%v-%v' for key 'PRIMARY'", row["id"], row["created"])
		}
	}
	t.Rows = append(t.Rows, row)
	return driver.RowsAffected(1), nil
}

func (s *fakeStmt) Query(args []driver.Value) (driver.Rows, error) {
	e := s.e
	e.mu.Lock()
	defer e.mu.Unlock()
	e.Log = append(e.Log, s.q)
	m := reSelect.FindStringSubmatch(s.q)
	if m == nil {
		e.Unsupported = append(e.Unsupported, s.q)
		return nil, fmt.Errorf("fakesql: cannot parse query %q", s.q)
	}
	t := e.Tables[strings.ToLower(m[2])]
	if t == nil {
		return nil, fmt.Errorf("fakesql: table %s does not exist", m[2])
	}
	cols := splitTrim(m[1])
	for i := range cols {
		cols[i] = strings.ToLower(cols[i])
		if !containsStr(t.Cols, cols[i]) {
			return nil, fmt.Errorf("fakesql: unknown column %s", cols[i])
		}
	}
	pos := 0
	type cond struct {
		col string
		val driver.Value
	}
	var conds []cond
	for _, part := range regexp.MustCompile(`(?i)\s+and\s+`).Split(m[3], -1) {
		cm := reCond.FindStringSubmatch(part)
		if cm == nil {
			e.Unsupported = append(e.Unsupported, s.q)
			return nil, fmt.Errorf("fakesql: cannot parse condition %q", part)
		}
		col := strings.ToLower(cm[1])
		if !containsStr(t.Cols, col) {
			return nil, fmt.Errorf("fakesql: unknown column %s", col)
		}
		v, err := e.placeholder(cm[2], &pos, args)
		if err != nil {
			return nil, err
		}
		if v, err = norm(col, v); err != nil {
			return nil, err
		}
		conds = append(conds, cond{col, v})
	}
	var out []map[string]driver.Value
	for _, r := range t.Rows {
		ok := true
		for _, c := range conds {
			if r[c.col] != c.val {
				ok = false
			}
		}
		if ok {
			out = append(out, r)
		}
	}
	if m[4] != "" {
		oc := strings.ToLower(m[4])
		desc := strings.EqualFold(m[5], "desc")
		sort.SliceStable(out, func(i, j int) bool {
			a, b := out[i][oc], out[j][oc]
			var less bool
			switch av := a.(type) {
			case int64:
				less = av < b.(int64)
			case string:
				less = av < b.(string)
			}
			if desc {
				return !less && a != b
			}
			return less
		})
	}
	if m[6] != "" {
		n, _ := strconv.Atoi(m[6])
		if len(out) > n {
			out = out[:n]
		}
	}
	e.queries++
	if e.FailFetch && e.queries%2 == 1 {
		return &fakeRows{cols: cols, rows: out, fail: true}, nil
	}
	return &fakeRows{cols: cols, rows: out}, nil
}

type fakeRows struct {
	cols []string
	rows []map[string]driver.Value
	i    int
	fail bool
}

var errFetch = errors.New("fakesql: connection lost while fetching the result set")

func (r *fakeRows) Columns() []string { return r.cols }
func (r *fakeRows) Close() error      { return nil }
func (r *fakeRows) Next(dest []driver.Value) error {
	if r.fail {
		return errFetch
	}
	if r.i >= len(r.rows) {
		return io.EOF
	}
	for j, c := range r.cols {
		v := r.rows[r.i][c]
		if c == "created" {
			v = time.Unix(v.(int64), 0).UTC()
		}
		dest[j] = v
	}
	r.i++
	return nil
}

func splitTrim(s string) []string {
	var out []string
	for _, p := range strings.Split(s, ",") {
		out = append(out, strings.TrimSpace(p))
	}
	return out
}

func containsStr(xs []string, x string) bool {
	for _, y := range xs {
		if y == x {
			return true
		}
	}
	return false
}
