// Package doubles holds the environment doubles shared by the checks: tracking secret
// factory, spy metastore / KMS / AEAD. None of them lives in /repo.
package doubles

import (
	"crypto/sha256"
	"encoding/binary"
	"errors"
	"fmt"
	"io"
	"sync"

	"github.com/godaddy/asherah/go/securememory"

	"asherahverif/shim/vsched"
)

// ErrClosed is the error of the real implementations.
var ErrClosed = errors.New("secret has already been destroyed")

// TrackSecret is a pure-Go securememory.Secret with accounting.
type TrackSecret struct {
	ID         int
	Kind       string // "random" | "new"
	KeyID      int    // identity of the key material (equal bytes => equal KeyID)
	F          *TrackFactory
	bytes      []byte
	closing    bool
	Closed     bool
	CloseCalls int
	CloseDone  int // how many times the underlying release actually happened
	Readers    int
	Accesses   int
	AfterClose int // accesses attempted after close (use-after-destroy)
	obj        vsched.Obj
	Creator    int
}

// TrackFactory creates TrackSecrets with deterministic "random" bytes.
// KeyRegistry gives key material an identity shared by several factories.
type KeyRegistry struct {
	keyIDs   map[string]int
	KeyBytes map[int][]byte
	counter  uint64
}

func NewKeyRegistry() *KeyRegistry {
	return &KeyRegistry{keyIDs: map[string]int{}, KeyBytes: map[int][]byte{}}
}

func (r *KeyRegistry) id(b []byte) int {
	k := string(b)
	if id, ok := r.keyIDs[k]; ok {
		return id
	}
	id := len(r.keyIDs) + 1
	r.keyIDs[k] = id
	r.KeyBytes[id] = append([]byte{}, b...)
	return id
}

// IDOf returns the identity of raw key bytes (0 if never seen in a secret).
func (r *KeyRegistry) IDOf(b []byte) int { return r.keyIDs[string(b)] }

type TrackFactory struct {
	Secrets []*TrackSecret
	Reg     *KeyRegistry
	Name    string
	// NewSources keeps every slice handed to New (C10: must be wiped on return).
	NewSources [][]byte
	// Fault, if set, is asked before every creation; returning true makes it fail the way
	// protectedmemory fails early (before the source slice is wiped).
	Fault func(kind string, index int) bool
	// FaultMode 1: every creation is a Choose point {ok, fail}
	FaultMode     int
	NewCalls      int
	RandCalls     int
	UseAfterClose []string
	Seed          uint64
}

func NewTrackFactory() *TrackFactory {
	return &TrackFactory{Reg: NewKeyRegistry()}
}

// NewTrackFactoryShared shares key identities (and the random stream) with other factories.
func NewTrackFactoryShared(reg *KeyRegistry, name string) *TrackFactory {
	return &TrackFactory{Reg: reg, Name: name}
}

func (f *TrackFactory) keyID(b []byte) int { return f.Reg.id(b) }

// KeyIDOf returns the key identity of raw key bytes (0 if never seen in a secret).
func (f *TrackFactory) KeyIDOf(b []byte) int { return f.Reg.IDOf(b) }

var errAlloc = errors.New("doubles: injected secret allocation failure")

// New implements securememory.SecretFactory.
func (f *TrackFactory) New(b []byte) (securememory.Secret, error) {
	defer vsched.LockDoubles()()
	idx := f.NewCalls
	f.NewCalls++
	f.NewSources = append(f.NewSources, b)
	if (f.Fault != nil && f.Fault("New", idx)) || (f.FaultMode == 1 && vsched.Choose(2, "secret.New") != 0) {
		return nil, errAlloc
	}
	s := &TrackSecret{ID: len(f.Secrets), Kind: "new", F: f, bytes: append([]byte{}, b...), Creator: vsched.CurThread()}
	s.KeyID = f.keyID(s.bytes)
	for i := range b {
		b[i] = 0
	}
	f.Secrets = append(f.Secrets, s)
	return s, nil
}

// CreateRandom implements securememory.SecretFactory with counter-derived bytes.
func (f *TrackFactory) CreateRandom(size int) (securememory.Secret, error) {
	defer vsched.LockDoubles()()
	idx := f.RandCalls
	f.RandCalls++
	if (f.Fault != nil && f.Fault("CreateRandom", idx)) || (f.FaultMode == 1 && vsched.Choose(2, "secret.CreateRandom") != 0) {
		return nil, errAlloc
	}
	if size < 1 {
		return nil, errors.New("invalid secret length")
	}
	buf := make([]byte, 0, size)
	for len(buf) < size {
		var in [24]byte
		binary.LittleEndian.PutUint64(in[:8], f.Reg.counter)
		binary.LittleEndian.PutUint64(in[8:16], f.Seed)
		copy(in[16:], "trackrnd")
		f.Reg.counter++
		h := sha256.Sum256(in[:])
		buf = append(buf, h[:]...)
	}
	s := &TrackSecret{ID: len(f.Secrets), Kind: "random", F: f, bytes: buf[:size], Creator: vsched.CurThread()}
	s.KeyID = f.keyID(s.bytes)
	f.Secrets = append(f.Secrets, s)
	return s, nil
}

// Live returns the secrets that are not closed.
func (f *TrackFactory) Live() []*TrackSecret {
	var out []*TrackSecret
	for _, s := range f.Secrets {
		if !s.Closed {
			out = append(out, s)
		}
	}
	return out
}

var freeCond = sync.NewCond(&vsched.FreeMu)

func (s *TrackSecret) access() error {
	defer vsched.LockDoubles()()
	vsched.Point(&vsched.Op{Kind: "Secret.access", Obj: &s.obj})
	if s.closing || s.Closed {
		s.AfterClose++
		s.F.UseAfterClose = append(s.F.UseAfterClose, fmt.Sprintf("secret#%d(key%d) accessed by T%d after Close", s.ID, s.KeyID, vsched.CurThread()))
		return ErrClosed
	}
	s.Readers++
	s.Accesses++
	return nil
}

func (s *TrackSecret) release() {
	defer vsched.LockDoubles()()
	vsched.Point(&vsched.Op{Kind: "Secret.release", Obj: &s.obj})
	s.Readers--
	if vsched.FreeRunning() {
		freeCond.Broadcast()
	}
}

func (s *TrackSecret) WithBytes(action func([]byte) error) error {
	if err := s.access(); err != nil {
		return err
	}
	defer s.release()
	return action(s.bytes)
}

func (s *TrackSecret) WithBytesFunc(action func([]byte) ([]byte, error)) ([]byte, error) {
	if err := s.access(); err != nil {
		return nil, err
	}
	defer s.release()
	return action(s.bytes)
}

func (s *TrackSecret) IsClosed() bool {
	defer vsched.LockDoubles()()
	vsched.Point(&vsched.Op{Kind: "Secret.IsClosed", Obj: &s.obj})
	return s.Closed
}

func (s *TrackSecret) Close() error {
	defer vsched.LockDoubles()()
	vsched.Point(&vsched.Op{Kind: "Secret.Close", Obj: &s.obj})
	s.CloseCalls++
	s.closing = true
	if vsched.FreeRunning() && !vsched.Active() {
		for s.Readers > 0 {
			freeCond.Wait()
		}
	}
	vsched.Point(&vsched.Op{Kind: "Secret.Close.wait", Obj: &s.obj, Enabled: func() bool { return s.Readers == 0 }})
	if s.Closed {
		return nil
	}
	s.Closed = true
	s.CloseDone++
	for i := range s.bytes {
		s.bytes[i] = 0
	}
	return nil
}

type secretReader struct {
	s *TrackSecret
	i int
}

func (r *secretReader) Read(p []byte) (n int, err error) {
	err = r.s.WithBytes(func(b []byte) error {
		if r.i >= len(b) {
			return io.EOF
		}
		n = copy(p, b[r.i:])
		r.i += n
		if r.i >= len(b) {
			return io.EOF
		}
		return nil
	})
	return
}

func (s *TrackSecret) NewReader() io.Reader { return &secretReader{s: s} }

// Owns reports whether b is (part of) the memory of one of the factory's secrets rather than a copy of it.
func (f *TrackFactory) Owns(b []byte) bool {
	if len(b) == 0 {
		return true
	}
	for _, s := range f.Secrets {
		for i := range s.bytes {
			if &s.bytes[i] == &b[0] {
				return true
			}
		}
	}
	return false
}

// PeekBytes returns the key bytes without any accounting (oracles only).
func (s *TrackSecret) PeekBytes() []byte { return s.bytes }
