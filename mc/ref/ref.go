// Package ref is an independent reference implementation of asherah's read path, written
// from docs/DesignAndArchitecture.md, docs/Metastore.md and docs/KeyManagementService.md.
// It shares no type with the SDK: it works on its own structs (and JSON), its own
// AES-256-GCM slicing (ciphertext || 16-byte tag || 12-byte nonce) and its own key-id
// formatting.
package ref

import (
	"crypto/aes"
	"crypto/cipher"
	"errors"
	"fmt"
)

// KeyMeta / KeyRecord / DataRow mirror the documented JSON shapes.
type KeyMeta struct {
	KeyId   string `json:"KeyId"`
	Created int64  `json:"Created"`
}

type KeyRecord struct {
	Revoked       bool     `json:"Revoked,omitempty"`
	Created       int64    `json:"Created"`
	Key           []byte   `json:"Key"` // base64 in JSON
	ParentKeyMeta *KeyMeta `json:"ParentKeyMeta,omitempty"`
}

type DataRow struct {
	Key  *KeyRecord `json:"Key"`
	Data []byte     `json:"Data"`
}

// Table is a metastore snapshot: id -> created -> record.
type Table map[string]map[int64]*KeyRecord

// KMS unwraps a system key.
type KMS func(enc []byte) ([]byte, error)

const (
	tagSize   = 16
	nonceSize = 12
)

// Open decrypts ciphertext||tag||nonce with AES-256-GCM.
func Open(blob, key []byte) ([]byte, error) {
	if len(key) != 32 {
		return nil, fmt.Errorf("ref: key length %d", len(key))
	}
	if len(blob) < tagSize+nonceSize {
		return nil, errors.New("ref: blob too short")
	}
	b, err := aes.NewCipher(key)
	if err != nil {
		return nil, err
	}
	g, err := cipher.NewGCM(b)
	if err != nil {
		return nil, err
	}
	n := len(blob) - nonceSize
	return g.Open(nil, blob[n:], blob[:n], nil)
}

// Seal produces ciphertext||tag||nonce.
func Seal(plain, key, nonce []byte) ([]byte, error) {
	b, err := aes.NewCipher(key)
	if err != nil {
		return nil, err
	}
	g, err := cipher.NewGCM(b)
	if err != nil {
		return nil, err
	}
	out := g.Seal(nil, nonce, plain, nil)
	return append(out, nonce...), nil
}

// SystemKeyID / IntermediateKeyID follow the documented naming scheme.
func SystemKeyID(service, product, region string) string {
	id := "_SK_" + service + "_" + product
	if region != "" {
		id += "_" + region
	}
	return id
}

func IntermediateKeyID(partition, service, product, region string) string {
	id := "_IK_" + partition + "_" + service + "_" + product
	if region != "" {
		id += "_" + region
	}
	return id
}

// SystemKey resolves and unwraps a system key row.
func SystemKey(t Table, kms KMS, meta KeyMeta) ([]byte, error) {
	row := t[meta.KeyId][meta.Created]
	if row == nil {
		return nil, fmt.Errorf("ref: system key %s/%d not in metastore", meta.KeyId, meta.Created)
	}
	return kms(row.Key)
}

// IntermediateKey resolves an intermediate key row and unwraps it with its system key.
func IntermediateKey(t Table, kms KMS, meta KeyMeta) ([]byte, error) {
	row := t[meta.KeyId][meta.Created]
	if row == nil {
		return nil, fmt.Errorf("ref: intermediate key %s/%d not in metastore", meta.KeyId, meta.Created)
	}
	if row.ParentKeyMeta == nil {
		return nil, fmt.Errorf("ref: intermediate key %s/%d has no parent meta", meta.KeyId, meta.Created)
	}
	sk, err := SystemKey(t, kms, *row.ParentKeyMeta)
	if err != nil {
		return nil, err
	}
	return Open(row.Key, sk)
}

// Decrypt is what a fresh process holding only the metastore contents and the KMS does.
func Decrypt(t Table, kms KMS, d *DataRow) ([]byte, error) {
	if d == nil || d.Key == nil || d.Key.ParentKeyMeta == nil {
		return nil, errors.New("ref: malformed data row record")
	}
	ik, err := IntermediateKey(t, kms, *d.Key.ParentKeyMeta)
	if err != nil {
		return nil, err
	}
	drk, err := Open(d.Key.Key, ik)
	if err != nil {
		return nil, fmt.Errorf("ref: data key: %w", err)
	}
	return Open(d.Data, drk)
}
