#!/usr/bin/env python3
"""Driver for the asherah model-checking checks.

  python3 check.py <property> --tier quick|thorough [--replay file]

Every invocation regenerates the build overlay from the current working tree of the
repository (VERIF_REPO, default /repo), rebuilds the harness binary against it and runs
the property's check.  Exit codes: 0 property held on everything explored (or only known
findings), 1 VIOLATION, 2 machinery error (never accompanied by a VIOLATION line).
"""
import argparse
import fcntl
import json
import os
import subprocess
import sys
import time

VERIF = os.path.dirname(os.path.abspath(__file__))
REPO = os.environ.get("VERIF_REPO", "/repo")
WORK = os.path.join(VERIF, ".work")
ENV = dict(os.environ)
ENV.update({
    "GOFLAGS": "-mod=mod",
    "GOPROXY": "off",
    "GOSUMDB": "off",
    "GOTOOLCHAIN": "local",
    "GOWORK": "off",
    "GOCACHE": os.path.join(VERIF, ".cache", "gobuild"),
})


def run(cmd, **kw):
    return subprocess.run(cmd, env=ENV, **kw)


def machinery_error(prop, tier, msg, out=""):
    """A build/instrumentation failure: evidence says so, exit 2, no VIOLATION line."""
    sys.stdout.write(out)
    print("MACHINERY-ERROR:", msg)
    os.makedirs(os.path.join(VERIF, "evidence"), exist_ok=True)
    ev = {
        "property_id": prop, "tier": tier, "seed": int(os.environ.get("VERIF_SEED", "0") or 0),
        "level": "other",
        "coverage": {"explanation": "check could not run: " + msg, "evaluations": 1, "distinct_nontrivial": 0,
                     "exhaustive": False},
        "assumptions": [], "wall_s": 0.0, "violations": 0,
    }
    with open(os.path.join(VERIF, "evidence", prop + ".json"), "w") as f:
        json.dump(ev, f, indent=1)
    sys.exit(2)


def build(prop, tier, repo):
    os.makedirs(WORK, exist_ok=True)
    os.makedirs(ENV["GOCACHE"], exist_ok=True)
    tag = str(os.getpid())
    ovdir = os.path.join(WORK, "overlay-" + tag)
    binp = os.path.join(WORK, "bin", "vharness-" + tag)
    os.makedirs(os.path.join(WORK, "bin"), exist_ok=True)
    mc = os.path.join(VERIF, "mc")
    gen = os.path.join(WORK, "bin", "gen")
    # the generator itself is rebuilt under a lock (cheap, cached)
    with open(os.path.join(WORK, "build.lock"), "w") as lk:
        fcntl.flock(lk, fcntl.LOCK_EX)
        p = run(["go", "build", "-o", gen, "./cmd/gen"], cwd=mc, capture_output=True, text=True)
        if p.returncode != 0:
            machinery_error(prop, tier, "generator build failed", p.stdout + p.stderr)
    # go.mod replaces point at the repository under test
    modfile = os.path.join(WORK, "go-%s.mod" % tag)
    with open(os.path.join(mc, "go.mod")) as f:
        mod = f.read().replace("/repo/", repo.rstrip("/") + "/")
    with open(modfile, "w") as f:
        f.write(mod)
    sumfile = modfile[:-4] + ".sum"
    with open(os.path.join(mc, "go.sum")) as f, open(sumfile, "w") as g:
        g.write(f.read())
    p = run([gen, "-repo", repo, "-out", ovdir, "-extra", os.path.join(mc, "gen_extra")], capture_output=True, text=True)
    if p.returncode == 3:
        machinery_error(prop, tier, "INSTRUMENTATION-GAP (construct the shims cannot control)", p.stdout + p.stderr)
    if p.returncode != 0:
        machinery_error(prop, tier, "overlay generation failed", p.stdout + p.stderr)
    p = run(["go", "build", "-modfile", modfile, "-overlay", os.path.join(ovdir, "overlay.json"), "-o", binp, "./cmd/vharness"],
            cwd=mc, capture_output=True, text=True)
    cleanup = [modfile, sumfile]
    if p.returncode != 0:
        for c in cleanup:
            try:
                os.remove(c)
            except OSError:
                pass
        subprocess.run(["rm", "-rf", ovdir])
        machinery_error(prop, tier, "harness build failed against the instrumented tree (compile error in /repo, or a "
                        "sync/atomic feature the shims do not provide = instrumentation gap)", p.stdout + p.stderr)
    return binp, ovdir, cleanup


def main():
    ap = argparse.ArgumentParser()
    ap.add_argument("property")
    ap.add_argument("--tier", default=os.environ.get("VERIF_TIER", "quick"))
    ap.add_argument("--replay")
    ap.add_argument("--budget", type=int, default=0)
    ap.add_argument("--keep", action="store_true")
    a = ap.parse_args()
    t0 = time.time()
    binp, ovdir, cleanup = build(a.property, a.tier, REPO)
    outdir = os.environ.get("VERIF_OUT", VERIF)
    if outdir != VERIF:
        # evaluation runs against patched trees keep their evidence / replays apart from the committed ones
        os.makedirs(outdir, exist_ok=True)
        import shutil
        shutil.copy(os.path.join(VERIF, "known_findings.json"), os.path.join(outdir, "known_findings.json"))
    cmd = [binp, a.property, "-tier", a.tier, "-verif", outdir]
    if a.replay:
        cmd += ["-replay", a.replay]
    if a.budget:
        cmd += ["-budget", str(a.budget)]
    seed = os.environ.get("VERIF_SEED")
    if seed:
        cmd += ["-seed", seed]
    try:
        p = subprocess.run(cmd, env=ENV)
        rc = p.returncode
    finally:
        if not a.keep:
            for c in cleanup + [binp]:
                try:
                    os.remove(c)
                except OSError:
                    pass
            subprocess.run(["rm", "-rf", ovdir])
    if rc not in (0, 1, 2):
        print("MACHINERY-ERROR: harness exited with status", rc)
        rc = 2
    print("check.py: %s %s done in %.1fs (exit %d)" % (a.property, a.tier, time.time() - t0, rc))
    sys.exit(rc)


if __name__ == "__main__":
    main()
