#!/usr/bin/env python3
"""Driver for the asherah model-checking checks.

  python3 check.py <property> --tier quick|thorough [--replay file]

Every invocation regenerates the build overlay from the current working tree of the
repository (VERIF_REPO, default /repo), rebuilds the harness binary against it and runs
the property's check.  Exit codes: 0 property held on everything explored (or only known
findings), 1 VIOLATION, 2 machinery error (never accompanied by a VIOLATION line).
"""
import argparse
import fcntl
import json
import os
import subprocess
import sys
import time

VERIF = os.path.dirname(os.path.abspath(__file__))
REPO = os.environ.get("VERIF_REPO", "/repo")
WORK = os.path.join(VERIF, ".work")
ENV = dict(os.environ)
ENV.update({
    "GOFLAGS": "-mod=mod",
    "GOPROXY": "off",
    "GOSUMDB": "off",
    "GOTOOLCHAIN": "local",
    "GOWORK": "off",
    "GOCACHE": os.path.join(VERIF, ".cache", "gobuild"),
})


def run(cmd, **kw):
    return subprocess.run(cmd, env=ENV, **kw)


def machinery_error(prop, tier, msg, out=""):
    """A build/instrumentation failure: evidence says so, exit 2, no VIOLATION line."""
    sys.stdout.write(out)
    print("MACHINERY-ERROR:", msg)
    outdir = os.environ.get("VERIF_OUT", VERIF)  # evaluation runs against patched trees keep their evidence apart
    os.makedirs(os.path.join(outdir, "evidence"), exist_ok=True)
    ev = {
        "property_id": prop, "tier": tier, "seed": int(os.environ.get("VERIF_SEED", "0") or 0),
        "level": "other",
        "coverage": {"explanation": "check could not run: " + msg, "evaluations": 1, "distinct_nontrivial": 0,
                     "exhaustive": False},
        "assumptions": [], "wall_s": 0.0, "violations": 0,
    }
    with open(os.path.join(outdir, "evidence", prop + ".json"), "w") as f:
        json.dump(ev, f, indent=1)
    sys.exit(2)


RACE_PROPS = {"C08": 40, "C11": 60, "C13": 200, "C14": 40, "C15": 100, "C16": 40, "C17": 200}


def race_pass(prop, n, modfile, ovdir, outdir):
    """Separate free-running pass under the race detector: the same harness bodies on real goroutines.
    It never changes the exit code: a report is an ASSUMPTION-BROKEN note in the evidence."""
    import glob
    sys.path.insert(0, os.path.join(VERIF, "tools"))
    import race_filter
    mc = os.path.join(VERIF, "mc")
    binr = os.path.join(WORK, "bin", "vharness-race-%d" % os.getpid())
    t0 = time.time()
    p = run(["go", "build", "-race", "-modfile", modfile, "-overlay", os.path.join(ovdir, "overlay.json"), "-o", binr, "./cmd/vharness"],
            cwd=mc, capture_output=True, text=True)
    if p.returncode != 0:
        return {"ran": False, "why": "race build failed: " + (p.stdout + p.stderr)[-300:]}
    logp = os.path.join(WORK, "race-%s-%d" % (prop, os.getpid()))
    env = dict(ENV, GORACE="halt_on_error=0 log_path=%s" % logp)
    try:
        q = subprocess.run([binr, "race", prop, str(n)], env=env, capture_output=True, text=True, timeout=1500)
        out = q.stdout + q.stderr
    except subprocess.TimeoutExpired:
        out = "timeout"
    files = glob.glob(logp + ".*")
    reps = race_filter.parse(files)
    impl = [t for t in reps if any(x and ("github.com/godaddy/asherah" in x[0] or "/repo/" in x[1]) for x in t)]
    res = {"ran": True, "summary": [l for l in out.splitlines() if l.startswith("RACE-PASS")][:1], "reports": len(reps),
           "in_repository_code": len(impl), "between_doubles_or_harness": len(reps) - len(impl),
           "samples": [[("%s %s:%s" % x) if x else "?" for x in t] for t in impl[:3]], "wall_s": round(time.time() - t0, 1),
           "crashed": "RACE-PASS" not in out}
    for f in files + [binr]:
        try:
            os.remove(f)
        except OSError:
            pass
    for t in res["samples"]:
        print("ASSUMPTION-BROKEN: data race in repository code seen by the free-running -race pass:", " <-> ".join(t))
    ev = os.path.join(outdir, "evidence", prop + ".json")
    try:
        e = json.load(open(ev))
        e["coverage"]["race_pass"] = res
        if res["in_repository_code"]:
            e["coverage"]["exhaustive"] = False
            e.setdefault("assumptions", []).append("ASSUMPTION-BROKEN: the -race pass saw %d data races in repository code (see coverage.race_pass)" % res["in_repository_code"])
        else:
            e.setdefault("assumptions", []).append("free-running -race pass over the same harness bodies (%s): no data race in repository code" % (res["summary"][0] if res["summary"] else "no summary"))
        json.dump(e, open(ev, "w"), indent=1)
    except Exception as ex:  # evidence missing: nothing to annotate
        print("race pass: could not annotate evidence:", ex)
    print("race pass: %s" % json.dumps({k: res[k] for k in ("reports", "in_repository_code", "between_doubles_or_harness", "wall_s", "crashed")}))
    return res


def build(prop, tier, repo):
    os.makedirs(WORK, exist_ok=True)
    os.makedirs(ENV["GOCACHE"], exist_ok=True)
    tag = str(os.getpid())
    ovdir = os.path.join(WORK, "overlay-" + tag)
    binp = os.path.join(WORK, "bin", "vharness-" + tag)
    os.makedirs(os.path.join(WORK, "bin"), exist_ok=True)
    mc = os.path.join(VERIF, "mc")
    gen = os.path.join(WORK, "bin", "gen")
    # the generator itself is rebuilt under a lock (cheap, cached)
    with open(os.path.join(WORK, "build.lock"), "w") as lk:
        fcntl.flock(lk, fcntl.LOCK_EX)
        p = run(["go", "build", "-o", gen, "./cmd/gen"], cwd=mc, capture_output=True, text=True)
        if p.returncode != 0:
            machinery_error(prop, tier, "generator build failed", p.stdout + p.stderr)
    # go.mod replaces point at the repository under test
    modfile = os.path.join(WORK, "go-%s.mod" % tag)
    with open(os.path.join(mc, "go.mod")) as f:
        mod = f.read().replace("/repo/", repo.rstrip("/") + "/")
    with open(modfile, "w") as f:
        f.write(mod)
    sumfile = modfile[:-4] + ".sum"
    with open(os.path.join(mc, "go.sum")) as f, open(sumfile, "w") as g:
        g.write(f.read())
    p = run([gen, "-repo", repo, "-out", ovdir, "-extra", os.path.join(mc, "gen_extra")], capture_output=True, text=True)
    if p.returncode == 3:
        machinery_error(prop, tier, "INSTRUMENTATION-GAP (construct the shims cannot control)", p.stdout + p.stderr)
    if p.returncode != 0:
        machinery_error(prop, tier, "overlay generation failed", p.stdout + p.stderr)
    p = run(["go", "build", "-modfile", modfile, "-overlay", os.path.join(ovdir, "overlay.json"), "-o", binp, "./cmd/vharness"],
            cwd=mc, capture_output=True, text=True)
    cleanup = [modfile, sumfile]
    if p.returncode != 0:
        for c in cleanup:
            try:
                os.remove(c)
            except OSError:
                pass
        subprocess.run(["rm", "-rf", ovdir])
        machinery_error(prop, tier, "harness build failed against the instrumented tree (compile error in /repo, or a "
                        "sync/atomic feature the shims do not provide = instrumentation gap)", p.stdout + p.stderr)
    return binp, ovdir, cleanup, modfile


def main():
    ap = argparse.ArgumentParser()
    ap.add_argument("property")
    ap.add_argument("--tier", default=os.environ.get("VERIF_TIER", "quick"))
    ap.add_argument("--replay")
    ap.add_argument("--budget", type=int, default=0)
    ap.add_argument("--keep", action="store_true")
    ap.add_argument("--race", type=int, default=0, help="also run the free-running -race pass with N executions per scenario")
    a = ap.parse_args()
    t0 = time.time()
    binp, ovdir, cleanup, modfile = build(a.property, a.tier, REPO)
    outdir = os.environ.get("VERIF_OUT", VERIF)
    if outdir != VERIF:
        # evaluation runs against patched trees keep their evidence / replays apart from the committed ones
        os.makedirs(outdir, exist_ok=True)
        import shutil
        shutil.copy(os.path.join(VERIF, "known_findings.json"), os.path.join(outdir, "known_findings.json"))
    cmd = [binp, a.property, "-tier", a.tier, "-verif", outdir]
    if a.replay:
        cmd += ["-replay", a.replay]
    if a.budget:
        cmd += ["-budget", str(a.budget)]
    seed = os.environ.get("VERIF_SEED")
    if seed:
        cmd += ["-seed", seed]
    try:
        p = subprocess.run(cmd, env=ENV)
        rc = p.returncode
        if not a.replay and a.property in RACE_PROPS and (a.tier == "thorough" or a.race):
            race_pass(a.property, a.race or RACE_PROPS[a.property], modfile, ovdir, outdir)
    finally:
        if not a.keep:
            for c in cleanup + [binp]:
                try:
                    os.remove(c)
                except OSError:
                    pass
            subprocess.run(["rm", "-rf", ovdir])
    if rc not in (0, 1, 2):
        print("MACHINERY-ERROR: harness exited with status", rc)
        rc = 2
    print("check.py: %s %s done in %.1fs (exit %d)" % (a.property, a.tier, time.time() - t0, rc))
    sys.exit(rc)


if __name__ == "__main__":
    main()
